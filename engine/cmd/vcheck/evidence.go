package main

import (
	"encoding/json"
	"fmt"
	"os"
	"path/filepath"
	"sort"
	"strings"
	"time"

	"verif/engine/interp"
)

func writeEvidence(id, tier string, seed int, prog *interp.Program, results []*interp.EntryResult, wall time.Duration, inconc []string, nViol int) {
	cov := map[string]interface{}{}
	var paths, completed, oblig, obligC, queries, unknown, nontrivial int
	var steps int64
	funcs := map[string]int{}
	depFuncs := map[string]int{}
	var entries []map[string]interface{}
	var samples []interface{}
	initFailed := map[string]string{}
	var solverMS float64
	for _, r := range results {
		if r == nil {
			continue
		}
		paths += r.Stats.Paths
		completed += r.Stats.PathsReturn + r.Stats.PathsPanic
		oblig += r.Stats.Obligations
		obligC += r.Stats.ObligationsCon
		queries += r.SolverQueries
		unknown += r.SolverUnknown
		steps += r.Steps
		nontrivial += r.NonTrivialPaths
		solverMS += r.SolverTime.Seconds() * 1000
		for f, c := range r.Funcs {
			if strings.Contains(f, "go-concise-encoding") {
				funcs[f] += c
			} else {
				depFuncs[f] += c
			}
		}
		for k, v := range r.InitFailed {
			initFailed[k] = v
		}
		e := map[string]interface{}{
			"entry": r.Entry, "paths": r.Stats.Paths, "returned": r.Stats.PathsReturn, "panicked": r.Stats.PathsPanic,
			"pruned": r.Stats.PathsPruned, "aborted": r.Stats.PathsAborted, "obligations_solver": r.Stats.Obligations,
			"obligations_concrete": r.Stats.ObligationsCon, "solver_queries": r.SolverQueries, "max_decisions": r.Stats.MaxDecs,
			"reach_labels": r.Reached, "wall_s": round2(r.Wall.Seconds()), "violations": len(r.Violations),
		}
		if len(r.Inconclusive) > 0 {
			e["inconclusive"] = r.Inconclusive
		}
		entries = append(entries, e)
		for _, s := range r.Samples {
			if len(samples) < 12 {
				samples = append(samples, r.Entry+": "+s)
			}
		}
		for _, v := range r.Violations {
			if len(samples) < 16 {
				samples = append(samples, map[string]interface{}{"entry": v.Entry, "violation": v.Msg, "region": v.Known, "model": v.Model, "replay": v.Confirm})
			}
		}
	}
	if len(samples) == 0 {
		for _, r := range results {
			if r != nil {
				samples = append(samples, fmt.Sprintf("%s: %d paths, %d obligations", r.Entry, r.Stats.Paths, r.Stats.Obligations+r.Stats.ObligationsCon))
			}
		}
	}
	if len(samples) == 0 {
		samples = append(samples, "no entry ran")
	}
	cov["evaluations"] = paths + oblig + obligC
	cov["distinct_nontrivial"] = nontrivial
	cov["rule"] = "bounded symbolic execution: one evaluation = one explored path or one discharged obligation; a path is non-trivial when it took at least one solver-decided decision or discharged at least one solver obligation; distinct = distinct decision sequences"
	cov["samples"] = samples
	cov["exhaustive"] = len(inconc) == 0
	cov["paths_explored"] = paths
	cov["paths_completed"] = completed
	cov["obligations_discharged_by_solver"] = oblig
	cov["obligations_concrete"] = obligC
	cov["solver_queries"] = queries
	cov["solver_unknown"] = unknown
	cov["solver_time_ms"] = round2(solverMS)
	cov["solver"] = "z3 5.1.0 (z3-new -in, incremental push/pop); on unknown: stand-alone cvc5 1.0 then z3 4.8.12; thorough tier: every unsat obligation re-checked by cvc5"
	cov["fallback_solver_queries"] = interp.FallbackQueries
	cov["obligations_cross_checked_by_cvc5"] = interp.CrossChecked
	cov["interpreted_instructions"] = steps
	cov["entries"] = entries
	cov["functions_encoded_repo"] = sortedKeys(funcs, 400)
	cov["functions_encoded_repo_count"] = len(funcs)
	cov["functions_encoded_deps_count"] = len(depFuncs)
	cov["functions_encoded_deps_sample"] = sortedKeys(depFuncs, 60)
	if len(initFailed) > 0 {
		cov["package_inits_abandoned"] = initFailed
	}
	if len(inconc) > 0 {
		cov["inconclusive"] = inconc
	}
	if prog != nil {
		cov["ssa_load_s"] = round2(prog.LoadDur.Seconds())
	}
	cov["bounds"] = readBounds(id, tier)
	cov["explanation"] = "Every verdict comes from z3 over path conditions produced by symbolically interpreting go/ssa of /repo's current tree (rebuilt on this run). Within the stated bounds every feasible path was explored and every obligation was unsat, unless listed under inconclusive/violations."
	ev := evidence{PropertyID: id, Tier: tier, Seed: seed, Level: "model_checking", Coverage: cov,
		Assumptions: readAssumptions(id), WallS: round2(wall.Seconds()), Violations: nViol}
	b, _ := json.MarshalIndent(ev, "", " ")
	dir := filepath.Join(verifDir, "evidence")
	os.MkdirAll(dir, 0o755)
	os.WriteFile(filepath.Join(dir, id+".json"), b, 0o644)
}

func round2(f float64) float64 { return float64(int64(f*100+0.5)) / 100 }

func sortedKeys(m map[string]int, max int) []string {
	var ks []string
	for k := range m {
		ks = append(ks, k)
	}
	sort.Strings(ks)
	if len(ks) > max {
		ks = ks[:max]
	}
	return ks
}

// readBounds / readAssumptions pull "//verif:bounds ..." and "//verif:assume ..."
// comment lines out of the harness sources so the evidence states them verbatim.
func readTagged(id, tag string) []string {
	var out []string
	dir := filepath.Join(verifDir, "harness", id)
	ents, _ := os.ReadDir(dir)
	for _, e := range ents {
		b, err := os.ReadFile(filepath.Join(dir, e.Name()))
		if err != nil {
			continue
		}
		for _, l := range strings.Split(string(b), "\n") {
			l = strings.TrimSpace(l)
			if strings.HasPrefix(l, "//verif:"+tag+" ") {
				out = append(out, strings.TrimPrefix(l, "//verif:"+tag+" "))
			}
		}
	}
	return out
}

func readBounds(id, tier string) []string {
	b := readTagged(id, "bounds")
	b = append(b, "tier="+tier)
	return b
}

func readAssumptions(id string) []string {
	a := readTagged(id, "assume")
	for _, s := range readTagged(id, "stub") {
		a = append(a, "stub: "+s)
	}
	a = append(a, "go/types + go/ssa (x/tools v0.29.0) lowering of the current /repo tree is faithful",
		"gosym instruction semantics (fork of x/tools go/ssa/interp; checked by vcheck --selftest against the native build)",
		"fmt.Errorf/Sprintf in error paths return opaque values (format kept, arguments dropped)",
		"z3 4.8.12 verdicts; any solver error/unknown/timeout makes the check inconclusive, never a pass")
	return a
}
