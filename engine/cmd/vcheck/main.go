// vcheck decides one property by bounded symbolic execution of /repo's current
// source tree (see /verif/DESIGN.md).
package main

import (
	"encoding/json"
	"flag"
	"fmt"
	"os"
	"os/exec"
	"path/filepath"
	"regexp"
	"runtime/pprof"
	"sort"
	"strconv"
	"strings"
	"sync"
	"time"

	"verif/engine/interp"
	"verif/engine/solver"
)

const modPath = "github.com/kstenerud/go-concise-encoding"

var (
	verifDir = envOr("VERIF_DIR", "/verif")
	repoDir  = envOr("VERIF_REPO", "/repo")
)

func envOr(k, d string) string {
	if v := os.Getenv(k); v != "" {
		return v
	}
	return d
}

type harnessFile struct {
	src     string // path under /verif/harness
	pkgPath string // import path of the package it is injected into
	dst     string // virtual path under /repo
	pkgName string
	stubs   map[string]string
}

var (
	rePkg   = regexp.MustCompile(`(?m)^//verif:package\s+(\S+)`)
	reStub  = regexp.MustCompile(`(?m)^//verif:stub\s+(\S+)\s*=>\s*(\S+)`)
	rePName = regexp.MustCompile(`(?m)^package\s+(\w+)`)
)

func readHarness(id string) ([]harnessFile, error) {
	dir := filepath.Join(verifDir, "harness", id)
	ents, err := os.ReadDir(dir)
	if err != nil {
		return nil, err
	}
	var hs []harnessFile
	for _, e := range ents {
		if !strings.HasSuffix(e.Name(), ".go") {
			continue
		}
		p := filepath.Join(dir, e.Name())
		b, err := os.ReadFile(p)
		if err != nil {
			return nil, err
		}
		m := rePkg.FindSubmatch(b)
		if m == nil {
			return nil, fmt.Errorf("%s: missing //verif:package header", p)
		}
		h := harnessFile{src: p, pkgPath: string(m[1]), stubs: map[string]string{}}
		rel := strings.TrimPrefix(strings.TrimPrefix(h.pkgPath, modPath), "/")
		h.dst = filepath.Join(repoDir, rel, "zz_verif_"+id+"_"+e.Name())
		if pm := rePName.FindSubmatch(b); pm != nil {
			h.pkgName = string(pm[1])
		}
		for _, sm := range reStub.FindAllSubmatch(b, -1) {
			h.stubs[string(sm[1])] = string(sm[2])
		}
		hs = append(hs, h)
	}
	if len(hs) == 0 {
		return nil, fmt.Errorf("no harness files in %s", dir)
	}
	return hs, nil
}

type knownFinding struct {
	ID       string `json:"id"`
	Property string `json:"property"`
	Status   string `json:"status"` // "open" or "fixed"
	What     string `json:"what"`
	Commit   string `json:"commit,omitempty"`
}

func readKnown() map[string]knownFinding {
	m := map[string]knownFinding{}
	b, err := os.ReadFile(filepath.Join(verifDir, "known_findings.json"))
	if err != nil {
		return m
	}
	var kf struct {
		Findings []knownFinding `json:"findings"`
	}
	if json.Unmarshal(b, &kf) == nil {
		for _, f := range kf.Findings {
			m[f.ID] = f
		}
	}
	return m
}

func main() {
	tier := flag.String("tier", envOr("VERIF_TIER", "quick"), "quick|thorough")
	entryRe := flag.String("entry", "", "regexp selecting entries")
	workers := flag.Int("workers", 16, "total worker goroutines")
	trace := flag.Bool("trace", false, "trace interpreted instructions")
	slv := flag.String("solver", "z3-new", "z3|z3-new|cvc5")
	noReplay := flag.Bool("noreplay", false, "do not replay models natively")
	replay := flag.String("replay", "", "replay a stored counterexample file and exit")
	verbose := flag.Bool("v", false, "verbose")
	timeout := flag.Int("timeout", 0, "solver timeout per query in ms (0 = tier default)")
	maxSec := flag.Int("maxsec", 0, "wall-clock budget in seconds (0 = tier default)")
	selftest := flag.Bool("selftest", false, "run the engine self-test (harness T00: a seeded violation must be found, replayed natively and matched to its known-finding region)")
	flag.Usage = func() {
		fmt.Fprintf(os.Stderr, "usage: vcheck [flags] <property-id>\n")
		flag.PrintDefaults()
	}
	// allow "vcheck C22 --tier quick"
	var id string
	args := os.Args[1:]
	if len(args) > 0 && !strings.HasPrefix(args[0], "-") {
		id = args[0]
		args = args[1:]
	}
	cpuprof := flag.String("cpuprofile", "", "write a CPU profile")
	flag.CommandLine.Parse(args)
	if *cpuprof != "" {
		f, _ := os.Create(*cpuprof)
		pprof.StartCPUProfile(f)
		defer pprof.StopCPUProfile()
	}
	if id == "" && flag.NArg() > 0 {
		id = flag.Arg(0)
	}
	if *replay != "" {
		os.Exit(replayFile(*replay))
	}
	if *selftest {
		id = "T00"
	}
	if id == "" {
		flag.Usage()
		os.Exit(2)
	}
	os.Setenv("VERIF_TIER", *tier)
	seed, _ := strconv.Atoi(os.Getenv("VERIF_SEED"))
	code := runCheck(id, *tier, *entryRe, *workers, *trace, solver.Kind(*slv), !*noReplay, *verbose, *timeout, *maxSec, seed)
	if *cpuprof != "" {
		pprof.StopCPUProfile()
	}
	os.Exit(code)
}

type evidence struct {
	PropertyID  string                 `json:"property_id"`
	Tier        string                 `json:"tier"`
	Seed        int                    `json:"seed"`
	Level       string                 `json:"level"`
	Coverage    map[string]interface{} `json:"coverage"`
	Assumptions []string               `json:"assumptions"`
	WallS       float64                `json:"wall_s"`
	Violations  int                    `json:"violations"`
}

func buildOverlay(hs []harnessFile) (map[string][]byte, map[string]string, error) {
	ov := map[string][]byte{}
	files := map[string]string{}
	rt, err := os.ReadFile(filepath.Join(verifDir, "rt", "verifrt", "verifrt.go"))
	if err != nil {
		return nil, nil, err
	}
	rtDst := filepath.Join(repoDir, "internal", "verifrt", "verifrt.go")
	ov[rtDst] = rt
	files[rtDst] = filepath.Join(verifDir, "rt", "verifrt", "verifrt.go")
	libDir := filepath.Join(verifDir, "harness", "lib")
	if ents, err := os.ReadDir(libDir); err == nil {
		for _, e := range ents {
			if strings.HasSuffix(e.Name(), ".go") {
				src := filepath.Join(libDir, e.Name())
				b, err := os.ReadFile(src)
				if err != nil {
					return nil, nil, err
				}
				dst := filepath.Join(repoDir, "internal", "verifh", e.Name())
				ov[dst] = b
				files[dst] = src
			}
		}
	}
	for _, h := range hs {
		b, err := os.ReadFile(h.src)
		if err != nil {
			return nil, nil, err
		}
		ov[h.dst] = b
		files[h.dst] = h.src
	}
	return ov, files, nil
}

func runCheck(id, tier, entryRe string, workers int, trace bool, sk solver.Kind, doReplay, verbose bool, timeoutMS, maxSec, seed int) int {
	t0 := time.Now()
	hs, err := readHarness(id)
	if err != nil {
		fmt.Printf("INCONCLUSIVE (harness): %v\n", err)
		return 2
	}
	ov, ovFiles, err := buildOverlay(hs)
	if err != nil {
		fmt.Printf("INCONCLUSIVE (overlay): %v\n", err)
		return 2
	}
	pats := map[string]bool{}
	stubs := map[string]string{}
	for _, h := range hs {
		pats[h.pkgPath] = true
		for k, v := range h.stubs {
			stubs[k] = v
		}
	}
	var patterns []string
	for p := range pats {
		patterns = append(patterns, p)
	}
	sort.Strings(patterns)
	prog, err := interp.Load(repoDir, patterns, ov, "math_big_pure_go,verif", stubs)
	if err != nil {
		fmt.Printf("INCONCLUSIVE (harness does not build against the current tree): %v\n", err)
		writeEvidence(id, tier, seed, nil, nil, time.Since(t0), []string{"load failed: " + err.Error()}, 0)
		return 2
	}
	if verbose {
		fmt.Fprintf(os.Stderr, "loaded SSA in %.1fs\n", prog.LoadDur.Seconds())
	}
	var entries []string
	var re *regexp.Regexp
	if entryRe != "" {
		re = regexp.MustCompile(entryRe)
	}
	for _, n := range prog.EntryNames() {
		if !strings.HasPrefix(n, "Verif_"+id+"_") && !strings.HasPrefix(n, "Verif_T_"+id+"_") {
			continue
		}
		if strings.HasPrefix(n, "Verif_T_") && tier != "thorough" {
			continue
		}
		if re != nil && !re.MatchString(n) {
			continue
		}
		entries = append(entries, n)
	}
	if len(entries) == 0 {
		fmt.Println("INCONCLUSIVE (no entries)")
		return 2
	}
	cfg := interp.Config{Solver: sk, Trace: trace}
	if tier == "thorough" {
		interp.CrossCheck = true
		cfg.SolverTimeout = 120000
		cfg.MaxPaths = 2000000
		cfg.MaxSteps = 50_000_000
		if maxSec == 0 {
			maxSec = 3000
		}
	} else {
		cfg.SolverTimeout = 15000
		if maxSec == 0 {
			maxSec = 900
		}
	}
	if timeoutMS > 0 {
		cfg.SolverTimeout = timeoutMS
	}
	// per-check engine settings: "//verif:config cap=300 steps=20000000 decisions=8000 paths=500000"
	for _, line := range readTagged(id, "config") {
		for _, kv := range strings.Fields(line) {
			p := strings.SplitN(kv, "=", 2)
			if len(p) != 2 {
				continue
			}
			n, err := strconv.Atoi(p[1])
			if err != nil {
				continue
			}
			switch p[0] {
			case "cap":
				cfg.ConcretizeCap = n
			case "steps":
				cfg.MaxSteps = n
			case "decisions":
				cfg.MaxDecisions = n
			case "paths":
				if n > cfg.MaxPaths {
					cfg.MaxPaths = n
				}
			case "alloc":
				cfg.AllocBudget = uint64(n)
			case "timeout": // solver timeout per query in ms; only ever raises the tier default
				if timeoutMS == 0 && n > cfg.SolverTimeout {
					cfg.SolverTimeout = n
				}
			case "maxsec": // wall-clock budget of the quick tier for this check
				if tier != "thorough" && n > maxSec {
					maxSec = n
				}
			}
		}
	}
	cfg.Deadline = t0.Add(time.Duration(maxSec) * time.Second)

	// run entries concurrently
	conc := len(entries)
	if conc > workers {
		conc = workers
	}
	per := workers / conc
	if per < 1 {
		per = 1
	}
	results := make([]*interp.EntryResult, len(entries))
	sem := make(chan struct{}, conc)
	var wg sync.WaitGroup
	for k, e := range entries {
		wg.Add(1)
		go func(k int, e string) {
			defer wg.Done()
			sem <- struct{}{}
			defer func() { <-sem }()
			results[k] = prog.RunEntry(e, cfg, per)
			if verbose {
				r := results[k]
				fmt.Fprintf(os.Stderr, "%s: paths=%d ret=%d panic=%d pruned=%d aborted=%d oblig=%d+%d viol=%d q=%d wall=%.1fs %v\n", e, r.Stats.Paths, r.Stats.PathsReturn,
					r.Stats.PathsPanic, r.Stats.PathsPruned, r.Stats.PathsAborted, r.Stats.Obligations, r.Stats.ObligationsCon, len(r.Violations), r.Stats.SolverQueries, r.Wall.Seconds(), r.Inconclusive)
				fmt.Fprintf(os.Stderr, "   pathtime=%.1fs solvertime=%.1fs send=%.1fs get=%.1fs queries=%d\n", r.PathTime.Seconds(), r.SolverTime.Seconds(), r.SendTime.Seconds(), r.GetTime.Seconds(), r.SolverQueries)
				for m, c := range r.AbortMsgs {
					fmt.Fprintf(os.Stderr, "   abort x%d: %s\n", c, m)
				}
			}
		}(k, e)
	}
	wg.Wait()

	known := readKnown()
	exit := 0
	var inconc []string
	var allViol []*interp.Violation
	for _, r := range results {
		for _, m := range r.Inconclusive {
			inconc = append(inconc, r.Entry+": "+m)
		}
		allViol = append(allViol, r.Violations...)
	}
	// dedupe violations per (entry,msg,known): keep first
	seen := map[string]bool{}
	var uniq []*interp.Violation
	for _, v := range allViol {
		k := v.Entry + "|" + v.Kind + "|" + v.Msg + "|" + v.Known
		if !seen[k] {
			seen[k] = true
			uniq = append(uniq, v)
		}
	}
	// replay
	var rp *replayer
	nViol := 0
	knownPrinted := map[string]bool{}
	var vioLines []string
	for _, v := range uniq {
		path := saveReplay(id, v)
		status := "not-replayed"
		if doReplay {
			if rp == nil {
				rp = newReplayer(id, hs, ovFiles)
			}
			status = rp.run(v, path)
		}
		v.Confirm = status
		kf, isKnown := known[v.Known]
		switch {
		case doReplay && status != "confirmed":
			inconc = append(inconc, fmt.Sprintf("%s: replay-mismatch (%s) for %q [%s]", v.Entry, status, v.Msg, path))
		case v.Known != "" && isKnown && kf.Status == "open" && kf.Property == id:
			if !knownPrinted[v.Known] {
				knownPrinted[v.Known] = true
				fmt.Printf("KNOWN-FINDING: property=%s %s (%s; entry %s, replay %s)\n", id, kf.What, v.Known, v.Entry, path)
			}
		default:
			nViol++
			vioLines = append(vioLines, fmt.Sprintf("VIOLATION property=%s replay=%s", id, path))
			fmt.Printf("VIOLATION property=%s replay=%s\n", id, path)
			fmt.Printf("  entry=%s kind=%s msg=%q region=%q model=%s\n", v.Entry, v.Kind, v.Msg, v.Known, modelStr(v.Model))
		}
	}
	if rp != nil {
		rp.cleanup()
	}
	if nViol > 0 {
		exit = 1
	} else if len(inconc) > 0 {
		exit = 2
	}
	sort.Strings(inconc)
	for _, m := range inconc {
		fmt.Printf("INCONCLUSIVE (%s)\n", m)
	}
	writeEvidence(id, tier, seed, prog, results, time.Since(t0), inconc, nViol)
	if exit == 0 {
		tot := 0
		ob := 0
		for _, r := range results {
			tot += r.Stats.Paths
			ob += r.Stats.Obligations + r.Stats.ObligationsCon
		}
		fmt.Printf("OK property=%s tier=%s entries=%d paths=%d obligations=%d wall=%.1fs\n", id, tier, len(entries), tot, ob, time.Since(t0).Seconds())
	}
	return exit
}

func modelStr(m map[string]uint64) string {
	var ks []string
	for k := range m {
		ks = append(ks, k)
	}
	sort.Strings(ks)
	var sb strings.Builder
	for i, k := range ks {
		if i > 0 {
			sb.WriteString(" ")
		}
		if i > 24 {
			sb.WriteString("...")
			break
		}
		fmt.Fprintf(&sb, "%s=%#x", k, m[k])
	}
	return sb.String()
}

type replayVec struct {
	Property string            `json:"property"`
	Entry    string            `json:"entry"`
	Kind     string            `json:"kind"`
	Msg      string            `json:"msg"`
	Known    string            `json:"known_region,omitempty"`
	Values   map[string]uint64 `json:"values"`
}

func saveReplay(id string, v *interp.Violation) string {
	dir := filepath.Join(verifDir, "replays", id)
	os.MkdirAll(dir, 0o755)
	rv := replayVec{Property: id, Entry: v.Entry, Kind: v.Kind, Msg: v.Msg, Known: v.Known, Values: v.Model}
	b, _ := json.MarshalIndent(rv, "", " ")
	h := fnv(string(b))
	p := filepath.Join(dir, fmt.Sprintf("%s_%08x.json", v.Entry, h))
	os.WriteFile(p, b, 0o644)
	return p
}

func fnv(s string) uint32 {
	h := uint32(2166136261)
	for i := 0; i < len(s); i++ {
		h ^= uint32(s[i])
		h *= 16777619
	}
	return h
}

// ---- native replay --------------------------------------------------------

type replayer struct {
	id      string
	tmp     string
	bins    map[string]string // pkgPath -> test binary
	hs      []harnessFile
	ovFiles map[string]string
	err     error
}

func newReplayer(id string, hs []harnessFile, ovFiles map[string]string) *replayer {
	r := &replayer{id: id, hs: hs, ovFiles: ovFiles, bins: map[string]string{}}
	base := filepath.Join(verifDir, ".cache", "replay")
	os.MkdirAll(base, 0o755)
	r.tmp, r.err = os.MkdirTemp(base, id+"-")
	return r
}

func (r *replayer) cleanup() {
	if r.tmp != "" {
		os.RemoveAll(r.tmp)
	}
}

// build compiles the test binary of the package holding entry.
func (r *replayer) build(pkgPath string, entries []string) (string, error) {
	if b, ok := r.bins[pkgPath]; ok {
		return b, nil
	}
	var pkgName, relDir string
	for _, h := range r.hs {
		if h.pkgPath == pkgPath {
			pkgName = h.pkgName
			relDir = filepath.Dir(h.dst)
		}
	}
	var sb strings.Builder
	fmt.Fprintf(&sb, "package %s\n\nimport (\n\t\"os\"\n\t\"testing\"\n)\n\nfunc TestVerifReplay(t *testing.T) {\n\tswitch os.Getenv(\"VERIF_ENTRY\") {\n", pkgName)
	for _, e := range entries {
		fmt.Fprintf(&sb, "\tcase %q:\n\t\t%s()\n", e, e)
	}
	sb.WriteString("\tdefault:\n\t\tt.Fatalf(\"unknown entry\")\n\t}\n}\n")
	testSrc := filepath.Join(r.tmp, "replay_"+pkgName+"_test.go")
	os.WriteFile(testSrc, []byte(sb.String()), 0o644)
	ov := map[string]string{}
	for k, v := range r.ovFiles {
		ov[k] = v
	}
	ov[filepath.Join(relDir, "zz_verif_replay_test.go")] = testSrc
	ovj, _ := json.Marshal(map[string]interface{}{"Replace": ov})
	ovPath := filepath.Join(r.tmp, "overlay_"+pkgName+".json")
	os.WriteFile(ovPath, ovj, 0o644)
	bin := filepath.Join(r.tmp, pkgName+".test")
	cmd := exec.Command("go", "test", "-c", "-vet=off", "-tags", "verif", "-overlay", ovPath, "-o", bin, pkgPath)
	cmd.Dir = repoDir
	cmd.Env = append(os.Environ(), "GOFLAGS=-mod=mod", "GOPROXY=off", "GOSUMDB=off", "GOTOOLCHAIN=local",
		"GOCACHE="+filepath.Join(verifDir, ".cache", "gocache"))
	out, err := cmd.CombinedOutput()
	if err != nil {
		return "", fmt.Errorf("go test -c failed: %v\n%s", err, out)
	}
	r.bins[pkgPath] = bin
	return bin, nil
}

func (r *replayer) entriesOf(pkgPath string) []string {
	re := regexp.MustCompile(`(?m)^func (Verif_\w+)\(\)`)
	var es []string
	for _, h := range r.hs {
		if h.pkgPath == pkgPath {
			b, _ := os.ReadFile(h.src)
			for _, m := range re.FindAllSubmatch(b, -1) {
				es = append(es, string(m[1]))
			}
		}
	}
	return es
}

func (r *replayer) pkgOfEntry(entry string) string {
	for _, h := range r.hs {
		b, _ := os.ReadFile(h.src)
		if strings.Contains(string(b), "func "+entry+"()") {
			return h.pkgPath
		}
	}
	return ""
}

// run replays v natively; returns "confirmed" or a description of the mismatch.
func (r *replayer) run(v *interp.Violation, vecPath string) string {
	if r.err != nil {
		return "replay setup failed: " + r.err.Error()
	}
	pkg := r.pkgOfEntry(v.Entry)
	if pkg == "" {
		return "entry not found in harness sources"
	}
	bin, err := r.build(pkg, r.entriesOf(pkg))
	if err != nil {
		return err.Error()
	}
	cmd := exec.Command("/bin/sh", "-c", "ulimit -v 8388608; exec timeout 30 "+bin+" -test.run '^TestVerifReplay$' -test.count=1")
	cmd.Dir = filepath.Dir(bin)
	cmd.Env = append(os.Environ(), "VERIF_REPLAY="+vecPath, "VERIF_ENTRY="+v.Entry)
	out, err := cmd.CombinedOutput()
	code := 0
	if ee, ok := err.(*exec.ExitError); ok {
		code = ee.ExitCode()
	} else if err != nil {
		return "cannot run replay: " + err.Error()
	}
	s := string(out)
	switch v.Kind {
	case "assert":
		if code == 97 && strings.Contains(s, "VERIF-ASSERT-FAILED: "+v.Msg) {
			return "confirmed"
		}
	case "panic":
		if code != 0 && strings.Contains(s, "panic:") {
			return "confirmed"
		}
	case "fatal":
		// oversized allocation / hang: confirmed if the process died of memory,
		// timed out, or the harness itself measured it
		if code == 124 || code == 137 || strings.Contains(s, "out of memory") || strings.Contains(s, "cannot allocate memory") || strings.Contains(s, "VERIF-ASSERT-FAILED") ||
			strings.Contains(s, "all goroutines are asleep - deadlock!") || strings.Contains(s, "fatal error: stack overflow") {
			return "confirmed"
		}
	}
	if len(s) > 400 {
		s = s[len(s)-400:]
	}
	return fmt.Sprintf("native run exit=%d output=%q", code, s)
}

func replayFile(path string) int {
	b, err := os.ReadFile(path)
	if err != nil {
		fmt.Println(err)
		return 2
	}
	var rv replayVec
	if err := json.Unmarshal(b, &rv); err != nil {
		fmt.Println(err)
		return 2
	}
	hs, err := readHarness(rv.Property)
	if err != nil {
		fmt.Println(err)
		return 2
	}
	_, ovFiles, err := buildOverlay(hs)
	if err != nil {
		fmt.Println(err)
		return 2
	}
	r := newReplayer(rv.Property, hs, ovFiles)
	defer r.cleanup()
	st := r.run(&interp.Violation{Entry: rv.Entry, Kind: rv.Kind, Msg: rv.Msg, Model: rv.Values}, path)
	fmt.Printf("replay %s: %s\n", path, st)
	if st == "confirmed" {
		fmt.Printf("VIOLATION property=%s replay=%s\n", rv.Property, path)
		return 1
	}
	return 0
}
