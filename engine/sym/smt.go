package sym

import (
	"fmt"
	"strings"
)

func sortOf(w int) string {
	if w == 0 {
		return "Bool"
	}
	return fmt.Sprintf("(_ BitVec %d)", w)
}

func constStr(w int, v uint64) string {
	if w == 0 {
		if v != 0 {
			return "true"
		}
		return "false"
	}
	if w%4 == 0 {
		return fmt.Sprintf("#x%0*x", w/4, v)
	}
	return fmt.Sprintf("#b%0*b", w, v)
}

func fpSort(w int) (string, string) {
	if w == 32 {
		return "(_ FloatingPoint 8 24)", "(_ to_fp 8 24)"
	}
	return "(_ FloatingPoint 11 53)", "(_ to_fp 11 53)"
}

// SMTName makes a variable name safe as an SMT-LIB symbol.
func SMTName(n string) string {
	ok := true
	for _, r := range n {
		if !(r >= 'a' && r <= 'z' || r >= 'A' && r <= 'Z' || r >= '0' && r <= '9' || r == '_' || r == '.' || r == '$' || r == '-' || r == '@' || r == '!') {
			ok = false
		}
	}
	if ok && n != "" && !(n[0] >= '0' && n[0] <= '9') {
		return n
	}
	return "|" + strings.ReplaceAll(n, "|", "!") + "|"
}

// Printer incrementally emits declarations/definitions for terms, remembering
// what the solver already knows. Every non-leaf term is given a nullary
// define-fun t<ID>, so the output is linear in the DAG size.
type Printer struct {
	Out     strings.Builder
	emitted map[*Term]string
	ufs     map[string]bool
	scopes  []map[*Term]bool // for Push/Pop bookkeeping
	ufScope []map[string]bool
}

func NewPrinter() *Printer {
	return &Printer{emitted: map[*Term]string{}, ufs: map[string]bool{}}
}

func (p *Printer) Push() {
	p.scopes = append(p.scopes, map[*Term]bool{})
	p.ufScope = append(p.ufScope, map[string]bool{})
}

func (p *Printer) Pop() {
	n := len(p.scopes) - 1
	for t := range p.scopes[n] {
		delete(p.emitted, t)
	}
	for u := range p.ufScope[n] {
		delete(p.ufs, u)
	}
	p.scopes = p.scopes[:n]
	p.ufScope = p.ufScope[:n]
}

func (p *Printer) Reset() {
	p.emitted = map[*Term]string{}
	p.ufs = map[string]bool{}
	p.scopes = nil
	p.ufScope = nil
	p.Out.Reset()
}

func (p *Printer) remember(t *Term, name string) {
	p.emitted[t] = name
	if n := len(p.scopes); n > 0 {
		p.scopes[n-1][t] = true
	}
}

// Ref makes sure t is defined at the solver and returns the expression that
// refers to it.
func (p *Printer) Ref(t *Term) string {
	if s, ok := p.emitted[t]; ok {
		return s
	}
	// iterative post-order to avoid deep recursion on long chains
	type fr struct {
		t *Term
		i int
	}
	stack := []fr{{t, 0}}
	for len(stack) > 0 {
		top := &stack[len(stack)-1]
		if _, ok := p.emitted[top.t]; ok {
			stack = stack[:len(stack)-1]
			continue
		}
		if top.i < len(top.t.Args) {
			a := top.t.Args[top.i]
			top.i++
			if _, ok := p.emitted[a]; !ok {
				stack = append(stack, fr{a, 0})
			}
			continue
		}
		p.define(top.t)
		stack = stack[:len(stack)-1]
	}
	return p.emitted[t]
}

func (p *Printer) fp(t *Term) string {
	_, conv := fpSort(t.W)
	return "(" + conv + " " + p.emitted[t] + ")"
}

func fpConst(w int, bits uint64) string {
	_, conv := fpSort(w)
	return "(" + conv + " " + constStr(w, bits) + ")"
}

func (p *Printer) define(t *Term) {
	a := func(i int) string { return p.emitted[t.Args[i]] }
	name := fmt.Sprintf("t%d", t.ID)
	var body string
	switch t.Op {
	case OpConst:
		p.remember(t, constStr(t.W, t.Val))
		return
	case OpVar:
		n := SMTName(t.Name)
		fmt.Fprintf(&p.Out, "(declare-const %s %s)\n", n, sortOf(t.W))
		p.remember(t, n)
		return
	case OpNot, OpBvNot, OpNeg:
		body = fmt.Sprintf("(%s %s)", opNames[t.Op], a(0))
	case OpAnd, OpOr, OpEq, OpAdd, OpSub, OpMul, OpUDiv, OpURem, OpSDiv, OpSRem, OpBvAnd, OpBvOr, OpBvXor,
		OpShl, OpLShr, OpAShr, OpUlt, OpUle, OpSlt, OpSle, OpConcat:
		body = fmt.Sprintf("(%s %s %s)", opNames[t.Op], a(0), a(1))
	case OpIte:
		body = fmt.Sprintf("(ite %s %s %s)", a(0), a(1), a(2))
	case OpExtract:
		body = fmt.Sprintf("((_ extract %d %d) %s)", t.A, t.B, a(0))
	case OpZext:
		body = fmt.Sprintf("((_ zero_extend %d) %s)", t.A, a(0))
	case OpSext:
		body = fmt.Sprintf("((_ sign_extend %d) %s)", t.A, a(0))
	case OpFLt:
		body = fmt.Sprintf("(fp.lt %s %s)", p.fp(t.Args[0]), p.fp(t.Args[1]))
	case OpFLe:
		body = fmt.Sprintf("(fp.leq %s %s)", p.fp(t.Args[0]), p.fp(t.Args[1]))
	case OpFEq:
		body = fmt.Sprintf("(fp.eq %s %s)", p.fp(t.Args[0]), p.fp(t.Args[1]))
	case OpFAdd, OpFSub, OpFMul, OpFDiv:
		w := t.W
		srt, conv := fpSort(w)
		opn := map[Op]string{OpFAdd: "fp.add", OpFSub: "fp.sub", OpFMul: "fp.mul", OpFDiv: "fp.div"}[t.Op]
		fmt.Fprintf(&p.Out, "(declare-const fa%d %s)\n", t.ID, sortOf(w))
		fmt.Fprintf(&p.Out, "(define-fun fr%d () %s (%s RNE %s %s))\n", t.ID, srt, opn, p.fp(t.Args[0]), p.fp(t.Args[1]))
		fmt.Fprintf(&p.Out, "(assert (=> (not (fp.isNaN fr%d)) (= (%s fa%d) fr%d)))\n", t.ID, conv, t.ID, t.ID)
		var quiet, defNaN uint64
		if w == 32 {
			quiet, defNaN = 0x00400000, 0xFFC00000
		} else {
			quiet, defNaN = 0x0008000000000000, 0xFFF8000000000000
		}
		x, y := a(0), a(1)
		nan := fmt.Sprintf("(ite (fp.isNaN %s) (bvor %s %s) (ite (fp.isNaN %s) (bvor %s %s) %s))",
			p.fp(t.Args[0]), x, constStr(w, quiet), p.fp(t.Args[1]), y, constStr(w, quiet), constStr(w, defNaN))
		body = fmt.Sprintf("(ite (fp.isNaN fr%d) %s fa%d)", t.ID, nan, t.ID)
	case OpFToF:
		src := t.Args[0]
		srt, conv := fpSort(t.W)
		fmt.Fprintf(&p.Out, "(declare-const fa%d %s)\n", t.ID, sortOf(t.W))
		fmt.Fprintf(&p.Out, "(define-fun fr%d () %s (%s RNE %s))\n", t.ID, srt, conv, p.fp(src))
		fmt.Fprintf(&p.Out, "(assert (=> (not (fp.isNaN fr%d)) (= (%s fa%d) fr%d)))\n", t.ID, conv, t.ID, t.ID)
		var nan string
		if t.W == 32 { // 64 -> 32: sign | 0x7fc00000 | payload>>29
			nan = fmt.Sprintf("(bvor (concat ((_ extract 63 63) %s) #b0000000000000000000000000000000) (bvor #x7fc00000 ((_ extract 31 0) (bvlshr (bvand %s #x000fffffffffffff) #x000000000000001d))))", a(0), a(0))
		} else { // 32 -> 64
			nan = fmt.Sprintf("(bvor (concat ((_ extract 31 31) %s) #b000000000000000000000000000000000000000000000000000000000000000) (bvor #x7ff8000000000000 (bvshl ((_ zero_extend 32) (bvand %s #x007fffff)) #x000000000000001d)))", a(0), a(0))
		}
		body = fmt.Sprintf("(ite (fp.isNaN fr%d) %s fa%d)", t.ID, nan, t.ID)
	case OpSIntToF, OpUIntToF:
		srt, _ := fpSort(t.W)
		_ = srt
		e, s := 11, 53
		if t.W == 32 {
			e, s = 8, 24
		}
		cv := fmt.Sprintf("(_ to_fp %d %d)", e, s)
		if t.Op == OpUIntToF {
			cv = fmt.Sprintf("(_ to_fp_unsigned %d %d)", e, s)
		}
		_, conv := fpSort(t.W)
		fmt.Fprintf(&p.Out, "(declare-const fa%d %s)\n", t.ID, sortOf(t.W))
		fmt.Fprintf(&p.Out, "(assert (= (%s fa%d) (%s RNE %s)))\n", conv, t.ID, cv, a(0))
		body = fmt.Sprintf("fa%d", t.ID)
	case OpFToSInt, OpFToUInt:
		src := t.Args[0]
		fx := p.fp(src)
		if src.W == 32 { // widen exactly; range constants need float64
			fx = "((_ to_fp 11 53) RNE " + fx + ")"
		}
		w := t.W
		signed := t.Op == OpFToSInt
		k := func(f float64) string { return fpConst(64, fbits(64, f)) }
		cvtq := func(x string) string {
			return fmt.Sprintf("(ite (and (fp.lt %s %s) (fp.geq %s %s)) ((_ fp.to_sbv 64) RTZ %s) #x8000000000000000)",
				x, k(9223372036854775808.0), x, k(-9223372036854775808.0), x)
		}
		cvtl := func(x string) string {
			return fmt.Sprintf("(ite (and (fp.lt %s %s) (fp.gt %s %s)) ((_ fp.to_sbv 32) RTZ %s) #x80000000)",
				x, k(2147483648.0), x, k(-2147483649.0), x)
		}
		trunc := func(e string, from int) string {
			if from == w {
				return e
			}
			return fmt.Sprintf("((_ extract %d 0) %s)", w-1, e)
		}
		switch {
		case w <= 16 || (w == 32 && signed):
			body = trunc(cvtl(fx), 32)
		case w == 32 || signed:
			body = trunc(cvtq(fx), 64)
		default:
			sub := fmt.Sprintf("(fp.sub RNE %s %s)", fx, k(9223372036854775808.0))
			body = fmt.Sprintf("(ite (fp.lt %s %s) %s (bvor %s #x8000000000000000))", fx, k(9223372036854775808.0), cvtq(fx), cvtq(sub))
		}
	case OpUF:
		uname := SMTName(t.Name)
		if !p.ufs[t.Name] {
			var as []string
			for _, x := range t.Args {
				as = append(as, sortOf(x.W))
			}
			fmt.Fprintf(&p.Out, "(declare-fun %s (%s) %s)\n", uname, strings.Join(as, " "), sortOf(t.W))
			p.ufs[t.Name] = true
			if n := len(p.ufScope); n > 0 {
				p.ufScope[n-1][t.Name] = true
			}
		}
		if len(t.Args) == 0 {
			body = uname
		} else {
			var as []string
			for i := range t.Args {
				as = append(as, a(i))
			}
			body = fmt.Sprintf("(%s %s)", uname, strings.Join(as, " "))
		}
	default:
		panic(fmt.Sprintf("sym: cannot print op %d", t.Op))
	}
	fmt.Fprintf(&p.Out, "(define-fun %s () %s %s)\n", name, sortOf(t.W), body)
	p.remember(t, name)
}

// Take returns and clears the pending output.
func (p *Printer) Take() string {
	s := p.Out.String()
	p.Out.Reset()
	return s
}

// writeTerm renders a term as a (tree) s-expression for debugging.
func writeTerm(sb *strings.Builder, t *Term, seen map[*Term]bool) {
	switch t.Op {
	case OpConst:
		sb.WriteString(constStr(t.W, t.Val))
	case OpVar:
		sb.WriteString(t.Name)
	case OpExtract:
		fmt.Fprintf(sb, "(extract[%d:%d] ", t.A, t.B)
		writeTerm(sb, t.Args[0], seen)
		sb.WriteString(")")
	case OpZext, OpSext:
		fmt.Fprintf(sb, "(%s%d ", map[Op]string{OpZext: "zext", OpSext: "sext"}[t.Op], t.A)
		writeTerm(sb, t.Args[0], seen)
		sb.WriteString(")")
	default:
		n, ok := opNames[t.Op]
		if !ok {
			n = fmt.Sprintf("op%d:%s", t.Op, t.Name)
		}
		sb.WriteString("(" + n)
		for _, a := range t.Args {
			sb.WriteString(" ")
			if sb.Len() > 4000 {
				sb.WriteString("...")
				break
			}
			writeTerm(sb, a, seen)
		}
		sb.WriteString(")")
	}
}
