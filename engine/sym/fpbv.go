package sym

// Pure bit-vector encodings of the float operations that dominate this code
// base (width conversion, comparison, float<->integer). They avoid the FP
// theory (and its auxiliary "bits of the result" variables) entirely; the
// FP-theory encodings in smt.go remain available (UseFPTheory) and the two are
// checked against each other by the engine self-test.

var UseFPTheory = false

func (c *Ctx) k(w int, v uint64) *Term { return c.Const(w, v) }
func (c *Ctx) shlK(x *Term, n int) *Term {
	return c.Bin(OpShl, x, c.Const(x.W, uint64(n)))
}
func (c *Ctx) shrK(x *Term, n int) *Term {
	return c.Bin(OpLShr, x, c.Const(x.W, uint64(n)))
}
func (c *Ctx) isZero(x *Term) *Term { return c.Eq(x, c.Const(x.W, 0)) }

type fpParts struct {
	sign, exp, man *Term
	ew, mw         int
}

func (c *Ctx) fpSplit(x *Term) fpParts {
	if x.W == 32 {
		return fpParts{c.Extract(x, 31, 31), c.Extract(x, 30, 23), c.Extract(x, 22, 0), 8, 23}
	}
	return fpParts{c.Extract(x, 63, 63), c.Extract(x, 62, 52), c.Extract(x, 51, 0), 11, 52}
}

func (c *Ctx) fpIsNaN(x *Term) *Term {
	p := c.fpSplit(x)
	return c.And(c.Eq(p.exp, c.Const(p.ew, mask(p.ew))), c.Not(c.isZero(p.man)))
}

// fpIsZero: +0 or -0
func (c *Ctx) fpIsZero(x *Term) *Term {
	return c.isZero(c.Extract(x, x.W-2, 0))
}

func (c *Ctx) bvFEq(x, y *Term) *Term {
	ok := c.And(c.Not(c.fpIsNaN(x)), c.Not(c.fpIsNaN(y)))
	same := c.Or(c.Eq(x, y), c.And(c.fpIsZero(x), c.fpIsZero(y)))
	return c.And(ok, same)
}

func (c *Ctx) bvFLt(x, y *Term) *Term {
	w := x.W
	ok := c.And(c.Not(c.fpIsNaN(x)), c.Not(c.fpIsNaN(y)))
	sx, sy := c.Eq(c.Extract(x, w-1, w-1), c.Const(1, 1)), c.Eq(c.Extract(y, w-1, w-1), c.Const(1, 1))
	mx, my := c.Extract(x, w-2, 0), c.Extract(y, w-2, 0)
	bothZero := c.And(c.isZero(mx), c.isZero(my))
	// signs differ: x<y iff x negative (and not both zero)
	diff := c.And(sx, c.Not(sy))
	pos := c.AndN(c.Not(sx), c.Not(sy), c.Cmp(OpUlt, mx, my))
	neg := c.AndN(sx, sy, c.Cmp(OpUlt, my, mx))
	return c.AndN(ok, c.Not(bothZero), c.Or(diff, c.Or(pos, neg)))
}

func (c *Ctx) bvFLe(x, y *Term) *Term {
	return c.Or(c.bvFLt(x, y), c.bvFEq(x, y))
}

// bvF32to64 widens exactly (amd64 CVTSS2SD: NaN payload shifted, quiet bit set).
func (c *Ctx) bvF32to64(x *Term) *Term {
	p := c.fpSplit(x)
	sign := c.shlK(c.Zext(p.sign, 64), 63)
	m64 := c.shlK(c.Zext(p.man, 64), 29)
	expAll := c.Eq(p.exp, c.Const(8, 0xff))
	expZero := c.isZero(p.exp)
	manZero := c.isZero(p.man)
	// normal
	e64 := c.Bin(OpAdd, c.Zext(p.exp, 64), c.Const(64, 896))
	normal := c.Bin(OpBvOr, c.shlK(e64, 52), m64)
	// inf / nan
	nanq := c.Ite(manZero, c.Const(64, 0), c.Const(64, 1<<51))
	special := c.Bin(OpBvOr, c.Const(64, 0x7ff<<52), c.Bin(OpBvOr, m64, nanq))
	// subnormal: m * 2^-149, highest set bit k (0..22): e' = k+874, m' = (m << (52-k)) & mask52
	man64 := c.Zext(p.man, 64)
	sub := c.Const(64, 0)
	for k := 0; k <= 22; k++ {
		isK := c.Eq(c.shrK(man64, k), c.Const(64, 1))
		v := c.Bin(OpBvOr, c.Const(64, uint64(k+874)<<52), c.Bin(OpBvAnd, c.shlK(man64, 52-k), c.Const(64, mask(52))))
		sub = c.Ite(isK, v, sub)
	}
	body := c.Ite(expAll, special, c.Ite(expZero, c.Ite(manZero, c.Const(64, 0), sub), normal))
	return c.Bin(OpBvOr, sign, body)
}

// bvF64to32 narrows with round-to-nearest-even (amd64 CVTSD2SS NaN handling).
func (c *Ctx) bvF64to32(x *Term) *Term {
	p := c.fpSplit(x)
	sign := c.shlK(c.Zext(p.sign, 32), 31)
	e := c.Zext(p.exp, 64)
	sig := c.Bin(OpBvOr, c.Zext(p.man, 64), c.Const(64, 1<<52))
	expAll := c.Eq(p.exp, c.Const(11, 0x7ff))
	manZero := c.isZero(p.man)
	nan := c.Bin(OpBvOr, c.Const(32, 0x7fc00000), c.Extract(c.shrK(c.Zext(p.man, 64), 29), 31, 0))
	inf := c.Const(32, 0x7f800000)
	special := c.Ite(manZero, inf, nan)

	one := c.Const(64, 1)
	round := func(mant, rem, half *Term) *Term {
		up := c.Or(c.Cmp(OpUlt, half, rem), c.And(c.Eq(rem, half), c.Eq(c.Extract(mant, 0, 0), c.Const(1, 1))))
		return c.Bin(OpAdd, mant, c.Ite(up, one, c.Const(64, 0)))
	}
	// normal target: e >= 897  (E >= -126)
	mantN := c.Bin(OpBvOr, c.shlK(c.Bin(OpSub, e, c.Const(64, 896)), 23), c.shrK(c.Zext(p.man, 64), 29))
	remN := c.Bin(OpBvAnd, sig, c.Const(64, mask(29)))
	rN := round(mantN, remN, c.Const(64, 1<<28))
	overflow := c.Or(c.Cmp(OpUle, c.Const(64, 255), c.shrK(rN, 23)), c.Cmp(OpUle, c.Const(64, 1151), e)) // e-896 >= 255
	normal := c.Ite(overflow, inf, c.Extract(rN, 31, 0))
	// subnormal target: e <= 896, shift s = 926 - e (30..)
	s := c.Bin(OpSub, c.Const(64, 926), e)
	tooSmall := c.Cmp(OpUle, c.Const(64, 54), s)
	mantS := c.Bin(OpLShr, sig, s)
	remS := c.Bin(OpBvAnd, sig, c.Bin(OpSub, c.Bin(OpShl, one, s), one))
	halfS := c.Bin(OpShl, one, c.Bin(OpSub, s, one))
	rS := c.Extract(round(mantS, remS, halfS), 31, 0)
	sub := c.Ite(tooSmall, c.Const(32, 0), rS)
	isNormalTarget := c.Cmp(OpUle, c.Const(64, 897), e)
	body := c.Ite(expAll, special, c.Ite(c.isZero(p.exp), c.Const(32, 0), c.Ite(isNormalTarget, normal, sub)))
	return c.Bin(OpBvOr, sign, body)
}

// bvFToInt: float bits -> integer with amd64 semantics (see FToIntConcrete).
func (c *Ctx) bvFToInt(x *Term, w int, signed bool) *Term {
	if x.W == 32 {
		x = c.bvF32to64(x)
	}
	p := c.fpSplit(x)
	e := c.Zext(p.exp, 64)
	sig := c.Bin(OpBvOr, c.Zext(p.man, 64), c.Const(64, 1<<52))
	neg := c.Eq(p.sign, c.Const(1, 1))
	isNaN := c.fpIsNaN(x)
	// |x| truncated, valid when E = e-1023 <= 63
	// E < 0 -> 0 ; E <= 52 -> sig >> (52-E) = sig >> (1075-e) ; E > 52 -> sig << (e-1075)
	lt1 := c.Cmp(OpUlt, e, c.Const(64, 1023))
	small := c.Cmp(OpUle, e, c.Const(64, 1075))
	magS := c.Bin(OpLShr, sig, c.Bin(OpSub, c.Const(64, 1075), e))
	magL := c.Bin(OpShl, sig, c.Bin(OpSub, e, c.Const(64, 1075)))
	mag := c.Ite(lt1, c.Const(64, 0), c.Ite(small, magS, magL))
	sval := c.Ite(neg, c.Neg(mag), mag)
	// cvtq: valid iff !NaN and -2^63 <= x < 2^63  <=> E <= 62, or x == -2^63 exactly
	e62 := c.Cmp(OpUle, e, c.Const(64, 1023+62))
	isMin := c.AndN(neg, c.Eq(e, c.Const(64, 1023+63)), c.isZero(p.man))
	okq := c.And(c.Not(isNaN), c.Or(e62, isMin))
	cvtq := c.Ite(okq, sval, c.Const(64, 1<<63))
	// cvtl: valid iff !NaN and -2^31-1 < x < 2^31 : truncated value in [-2^31, 2^31)
	e30 := c.Cmp(OpUle, e, c.Const(64, 1023+30))
	// negative values down to (-2^31-1, -2^31]: E == 31 and mag == 2^31
	isMin32 := c.AndN(neg, c.Eq(e, c.Const(64, 1023+31)), c.Eq(mag, c.Const(64, 1<<31)))
	okl := c.And(c.Not(isNaN), c.Or(e30, isMin32))
	cvtl := c.Ite(okl, c.Extract(sval, 31, 0), c.Const(32, 0x80000000))
	switch {
	case w <= 16 || (w == 32 && signed):
		return c.Extract(cvtl, w-1, 0)
	case w == 32 || signed:
		return c.Extract(cvtq, w-1, 0)
	default:
		// uint64: x < 2^63 ? cvtq(x) : cvtq(x - 2^63) ^ 2^63
		// x >= 2^63 (positive, E >= 63, or +inf; NaN compares false -> second branch)
		below := c.bvFLt(x, c.Const(64, 0x43E0000000000000))
		// x - 2^63 for x in [2^63, 2^64): exact; truncation = mag - 2^63 when E == 63; for E>=64 or NaN/inf cvtq gives indefinite
		e63 := c.Eq(e, c.Const(64, 1023+63))
		hi := c.Ite(c.AndN(c.Not(isNaN), c.Not(neg), e63), c.Bin(OpSub, mag, c.Const(64, 1<<63)), c.Const(64, 1<<63))
		return c.Ite(below, cvtq, c.Bin(OpBvOr, hi, c.Const(64, 1<<63)))
	}
}

// bvIntToF: 64-bit integer (signed/unsigned) -> float64/float32 bits, RNE.
func (c *Ctx) bvIntToF(x *Term, w int, signed bool) *Term {
	if x.W != 64 {
		panic("bvIntToF expects a 64-bit operand")
	}
	neg := c.False()
	mag := x
	if signed {
		neg = c.Cmp(OpSlt, x, c.Const(64, 0))
		mag = c.Ite(neg, c.Neg(x), x)
	}
	// normalise: shift left so that the top set bit is bit 63; k = index of top bit
	norm := c.Const(64, 0)
	kk := c.Const(64, 0)
	for k := 0; k < 64; k++ {
		isK := c.Eq(c.shrK(mag, k), c.Const(64, 1))
		norm = c.Ite(isK, c.shlK(mag, 63-k), norm)
		kk = c.Ite(isK, c.Const(64, uint64(k)), kk)
	}
	var mbits, bias, ebits int
	if w == 64 {
		mbits, bias, ebits = 52, 1023, 11
	} else {
		mbits, bias, ebits = 23, 127, 8
	}
	_ = ebits
	drop := 63 - mbits // bits below the kept mantissa
	mant := c.shrK(norm, drop) // includes the leading 1 at bit mbits
	rem := c.Bin(OpBvAnd, norm, c.Const(64, mask(drop)))
	half := c.Const(64, uint64(1)<<uint(drop-1))
	up := c.Or(c.Cmp(OpUlt, half, rem), c.And(c.Eq(rem, half), c.Eq(c.Extract(mant, 0, 0), c.Const(1, 1))))
	// compose exponent and mantissa so that the rounding carry propagates
	expo := c.Bin(OpAdd, kk, c.Const(64, uint64(bias)))
	r := c.Bin(OpAdd, c.Bin(OpAdd, c.shlK(expo, mbits), c.Bin(OpBvAnd, mant, c.Const(64, mask(mbits)))), c.Ite(up, c.Const(64, 1), c.Const(64, 0)))
	r = c.Ite(c.isZero(mag), c.Const(64, 0), r)
	sign := c.Ite(neg, c.Const(64, uint64(1)<<uint(w-1)), c.Const(64, 0))
	return c.Extract(c.Bin(OpBvOr, r, sign), w-1, 0)
}

// FFixedScaled gives the digits of a float64 printed with a fixed number of
// decimals (strconv 'f' format, precision p, scale = 10^p <= 1000):
// q = |x| * scale rounded half-to-even on the exact binary value, ok = x is
// finite and q < 2^62, neg = sign bit (Go prints "-0.00" for negative values
// that round to zero). The text is then q/scale "." q%scale.
func (c *Ctx) FFixedScaled(x *Term, scale uint64) (ok, neg, q *Term) {
	if x.W == 32 {
		x = c.bvF32to64(x)
	}
	if scale > 1000 {
		panic("FFixedScaled: scale too large")
	}
	p := c.fpSplit(x)
	e := c.Zext(p.exp, 64)
	neg = c.Eq(p.sign, c.Const(1, 1))
	sub := c.isZero(p.exp)
	// value = sig * 2^(E-1075) with E = max(e,1)
	sig := c.Ite(sub, c.Zext(p.man, 64), c.Bin(OpBvOr, c.Zext(p.man, 64), c.Const(64, 1<<52)))
	E := c.Ite(sub, c.Const(64, 1), e)
	P := c.Bin(OpMul, sig, c.Const(64, scale)) // < 2^53 * 2^10
	finite := c.Not(c.Eq(p.exp, c.Const(11, 0x7ff)))
	// right shift by sh = 1075-E (1..1074) with round half to even
	right := c.Cmp(OpUlt, E, c.Const(64, 1075))
	sh := c.Bin(OpSub, c.Const(64, 1075), E)
	big := c.Cmp(OpUle, c.Const(64, 64), sh) // sh >= 64: P < 2^63 <= half, rounds to 0
	q0 := c.Bin(OpLShr, P, sh)
	one := c.Const(64, 1)
	low := c.Bin(OpBvAnd, P, c.Bin(OpSub, c.Bin(OpShl, one, sh), one))
	half := c.Bin(OpShl, one, c.Bin(OpSub, sh, one))
	odd := c.Eq(c.Bin(OpBvAnd, q0, one), one)
	up := c.Or(c.Cmp(OpUlt, half, low), c.And(c.Eq(low, half), odd))
	qr := c.Ite(big, c.Const(64, 0), c.Ite(up, c.Bin(OpAdd, q0, one), q0))
	// left shift by E-1075 (0..): fits while the result stays below 2^62
	lsh := c.Bin(OpSub, E, c.Const(64, 1075))
	ql := c.Bin(OpShl, P, lsh)
	fitsL := c.And(c.Cmp(OpUlt, lsh, c.Const(64, 62)), c.Eq(c.Bin(OpLShr, ql, lsh), P))
	q = c.Ite(right, qr, ql)
	ok = c.AndN(finite, c.Or(right, fitsL), c.Cmp(OpUlt, q, c.Const(64, 1<<62)))
	return
}
