// Package sym is the term DAG used by the symbolic interpreter: hash-consed
// Bool / BitVec terms (floats are carried as their IEEE bit patterns and only
// enter the FP theory inside individual operators), a constant-folding
// simplifier and an SMT-LIB2 printer.
package sym

import (
	"fmt"
	"math"
	"math/bits"
	"strings"
)

type Op uint8

const (
	OpConst Op = iota
	OpVar
	// boolean
	OpNot
	OpAnd
	OpOr
	OpEq  // args same sort -> Bool
	OpIte // (Bool, a, b) -> sort of a
	// bit-vector
	OpAdd
	OpSub
	OpMul
	OpUDiv
	OpURem
	OpSDiv
	OpSRem
	OpBvAnd
	OpBvOr
	OpBvXor
	OpBvNot
	OpNeg
	OpShl
	OpLShr
	OpAShr
	OpUlt
	OpUle
	OpSlt
	OpSle
	OpConcat
	OpExtract // A=hi, B=lo
	OpZext    // A=extra bits
	OpSext    // A=extra bits
	// floating point on bit patterns. Width of args decides the format.
	OpFAdd // (x,y) bits -> bits
	OpFSub
	OpFMul
	OpFDiv
	OpFLt      // -> Bool
	OpFLe      // -> Bool
	OpFEq      // IEEE equality -> Bool
	OpFToF     // float bits (arg width) -> float bits (W)
	OpFToSInt  // float bits -> BV W, amd64 semantics
	OpFToUInt  // float bits -> BV W, amd64 semantics
	OpSIntToF  // BV -> float bits W
	OpUIntToF  // BV -> float bits W
	OpFIsNaN   // -> Bool (derived, but kept for readability)
	OpFRoundRN // unused placeholder
	// uninterpreted function: Name, args -> BV W / Bool
	OpUF
)

var opNames = map[Op]string{
	OpNot: "not", OpAnd: "and", OpOr: "or", OpEq: "=", OpIte: "ite",
	OpAdd: "bvadd", OpSub: "bvsub", OpMul: "bvmul", OpUDiv: "bvudiv", OpURem: "bvurem",
	OpSDiv: "bvsdiv", OpSRem: "bvsrem", OpBvAnd: "bvand", OpBvOr: "bvor", OpBvXor: "bvxor",
	OpBvNot: "bvnot", OpNeg: "bvneg", OpShl: "bvshl", OpLShr: "bvlshr", OpAShr: "bvashr",
	OpUlt: "bvult", OpUle: "bvule", OpSlt: "bvslt", OpSle: "bvsle", OpConcat: "concat",
}

// Term is an immutable node. W==0 means Bool; otherwise BitVec of width W (1..64;
// OpConcat may build up to 128 only transiently, which we do not allow).
type Term struct {
	Op   Op
	W    int
	Val  uint64 // OpConst
	Name string // OpVar / OpUF
	A, B int    // OpExtract hi/lo, OpZext/OpSext amount
	Args []*Term
	ID   int
	C    *Ctx // owning context
}

func (t *Term) IsBool() bool  { return t.W == 0 }
func (t *Term) IsConst() bool { return t.Op == OpConst }
func (t *Term) String() string {
	var sb strings.Builder
	writeTerm(&sb, t, nil)
	return sb.String()
}

// Ctx owns the hash-cons table. One Ctx per path (not shared across goroutines).
type Ctx struct {
	table  map[tkey]*Term
	nextID int
	Vars   []*Term // declared variables in creation order
	varIdx map[string]*Term
	User   interface{} // back pointer for the interpreter (path state)
}

func NewCtx() *Ctx {
	return &Ctx{table: make(map[tkey]*Term, 1024), varIdx: map[string]*Term{}}
}

func mask(w int) uint64 {
	if w >= 64 {
		return ^uint64(0)
	}
	return (uint64(1) << uint(w)) - 1
}

type tkey struct {
	op         Op
	w          int
	val        uint64
	name       string
	a, b       int
	x0, x1, x2 int
}

func (c *Ctx) mk(op Op, w int, val uint64, name string, a, b int, args ...*Term) *Term {
	k := tkey{op: op, w: w, val: val, name: name, a: a, b: b}
	switch len(args) {
	case 0:
	case 1:
		k.x0 = args[0].ID
	case 2:
		k.x0, k.x1 = args[0].ID, args[1].ID
	case 3:
		k.x0, k.x1, k.x2 = args[0].ID, args[1].ID, args[2].ID
	default:
		var sb strings.Builder
		sb.WriteString(name)
		for _, x := range args {
			fmt.Fprintf(&sb, ",%d", x.ID)
		}
		k.name = sb.String()
	}
	if t, ok := c.table[k]; ok {
		return t
	}
	c.nextID++
	t := &Term{Op: op, W: w, Val: val, Name: name, A: a, B: b, Args: args, ID: c.nextID, C: c}
	c.table[k] = t
	return t
}

func (c *Ctx) NumTerms() int { return c.nextID }

// ---- constructors -------------------------------------------------------

func (c *Ctx) Const(w int, v uint64) *Term { return c.mk(OpConst, w, v&mask(w), "", 0, 0) }
func (c *Ctx) Bool(b bool) *Term {
	if b {
		return c.mk(OpConst, 0, 1, "", 0, 0)
	}
	return c.mk(OpConst, 0, 0, "", 0, 0)
}
func (c *Ctx) True() *Term  { return c.Bool(true) }
func (c *Ctx) False() *Term { return c.Bool(false) }

// Var returns the (unique) variable with that name and width (0 = Bool).
func (c *Ctx) Var(name string, w int) *Term {
	if t, ok := c.varIdx[name]; ok {
		if t.W != w {
			panic(fmt.Sprintf("sym: variable %s redeclared with width %d (was %d)", name, w, t.W))
		}
		return t
	}
	t := c.mk(OpVar, w, 0, name, 0, 0)
	c.varIdx[name] = t
	c.Vars = append(c.Vars, t)
	return t
}

func (t *Term) isTrue() bool  { return t.Op == OpConst && t.W == 0 && t.Val == 1 }
func (t *Term) isFalse() bool { return t.Op == OpConst && t.W == 0 && t.Val == 0 }

func (c *Ctx) Not(x *Term) *Term {
	if x.Op == OpConst {
		return c.Bool(x.Val == 0)
	}
	if x.Op == OpNot {
		return x.Args[0]
	}
	return c.mk(OpNot, 0, 0, "", 0, 0, x)
}

func (c *Ctx) And(x, y *Term) *Term {
	if x.isFalse() || y.isFalse() {
		return c.False()
	}
	if x.isTrue() {
		return y
	}
	if y.isTrue() {
		return x
	}
	if x == y {
		return x
	}
	return c.mk(OpAnd, 0, 0, "", 0, 0, x, y)
}

func (c *Ctx) Or(x, y *Term) *Term {
	if x.isTrue() || y.isTrue() {
		return c.True()
	}
	if x.isFalse() {
		return y
	}
	if y.isFalse() {
		return x
	}
	if x == y {
		return x
	}
	return c.mk(OpOr, 0, 0, "", 0, 0, x, y)
}

func (c *Ctx) AndN(xs ...*Term) *Term {
	r := c.True()
	for _, x := range xs {
		r = c.And(r, x)
	}
	return r
}

func (c *Ctx) Eq(x, y *Term) *Term {
	if x.W != y.W {
		panic(fmt.Sprintf("sym.Eq: width mismatch %d vs %d", x.W, y.W))
	}
	if x == y {
		return c.True()
	}
	if x.Op == OpConst && y.Op == OpConst {
		return c.Bool(x.Val == y.Val)
	}
	if x.W == 0 {
		if x.Op == OpConst {
			x, y = y, x
		}
		if y.Op == OpConst {
			if y.Val == 1 {
				return x
			}
			return c.Not(x)
		}
	}
	if x.ID > y.ID {
		x, y = y, x
	}
	// (ite c a b) == k with constant a,b,k
	if y.Op == OpConst && x.Op == OpIte && x.Args[1].Op == OpConst && x.Args[2].Op == OpConst {
		return c.Ite(x.Args[0], c.Bool(x.Args[1].Val == y.Val), c.Bool(x.Args[2].Val == y.Val))
	}
	if x.Op == OpConst && y.Op == OpIte && y.Args[1].Op == OpConst && y.Args[2].Op == OpConst {
		return c.Ite(y.Args[0], c.Bool(y.Args[1].Val == x.Val), c.Bool(y.Args[2].Val == x.Val))
	}
	// zext(a) == const
	if x.Op == OpConst && y.Op == OpZext {
		inner := y.Args[0]
		if x.Val&^mask(inner.W) != 0 {
			return c.False()
		}
		return c.Eq(inner, c.Const(inner.W, x.Val))
	}
	if y.Op == OpConst && x.Op == OpZext {
		inner := x.Args[0]
		if y.Val&^mask(inner.W) != 0 {
			return c.False()
		}
		return c.Eq(inner, c.Const(inner.W, y.Val))
	}
	return c.mk(OpEq, 0, 0, "", 0, 0, x, y)
}

func (c *Ctx) Ite(cond, a, b *Term) *Term {
	if a.W != b.W {
		panic(fmt.Sprintf("sym.Ite: width mismatch %d vs %d", a.W, b.W))
	}
	if cond.Op == OpConst {
		if cond.Val != 0 {
			return a
		}
		return b
	}
	if a == b {
		return a
	}
	if a.W == 0 {
		if a.isTrue() && b.isFalse() {
			return cond
		}
		if a.isFalse() && b.isTrue() {
			return c.Not(cond)
		}
		if a.isTrue() {
			return c.Or(cond, b)
		}
		if a.isFalse() {
			return c.And(c.Not(cond), b)
		}
		if b.isTrue() {
			return c.Or(c.Not(cond), a)
		}
		if b.isFalse() {
			return c.And(cond, a)
		}
	}
	return c.mk(OpIte, a.W, 0, "", 0, 0, cond, a, b)
}

func sext64(v uint64, w int) int64 {
	if w >= 64 {
		return int64(v)
	}
	sh := uint(64 - w)
	return int64(v<<sh) >> sh
}

// evalBin folds a binary BV op on constants.
func evalBin(op Op, w int, x, y uint64) (uint64, bool) {
	m := mask(w)
	switch op {
	case OpAdd:
		return (x + y) & m, true
	case OpSub:
		return (x - y) & m, true
	case OpMul:
		return (x * y) & m, true
	case OpUDiv:
		if y == 0 {
			return m, true
		}
		return x / y, true
	case OpURem:
		if y == 0 {
			return x, true
		}
		return x % y, true
	case OpSDiv:
		sx, sy := sext64(x, w), sext64(y, w)
		if sy == 0 {
			if sx >= 0 {
				return m, true
			}
			return 1, true
		}
		if sy == -1 {
			return uint64(-sx) & m, true
		}
		return uint64(sx/sy) & m, true
	case OpSRem:
		sx, sy := sext64(x, w), sext64(y, w)
		if sy == 0 {
			return x, true
		}
		if sy == -1 {
			return 0, true
		}
		return uint64(sx%sy) & m, true
	case OpBvAnd:
		return x & y, true
	case OpBvOr:
		return x | y, true
	case OpBvXor:
		return x ^ y, true
	case OpShl:
		if y >= uint64(w) {
			return 0, true
		}
		return (x << y) & m, true
	case OpLShr:
		if y >= uint64(w) {
			return 0, true
		}
		return x >> y, true
	case OpAShr:
		sx := sext64(x, w)
		if y >= uint64(w) {
			y = uint64(w - 1)
		}
		return uint64(sx>>y) & m, true
	}
	return 0, false
}

func (c *Ctx) Bin(op Op, x, y *Term) *Term {
	if x.W != y.W {
		panic(fmt.Sprintf("sym.Bin %v: width mismatch %d vs %d", opNames[op], x.W, y.W))
	}
	w := x.W
	if x.Op == OpConst && y.Op == OpConst {
		if v, ok := evalBin(op, w, x.Val, y.Val); ok {
			return c.Const(w, v)
		}
	}
	// light algebraic identities
	switch op {
	case OpAdd:
		if x.Op == OpConst && x.Val == 0 {
			return y
		}
		if y.Op == OpConst && y.Val == 0 {
			return x
		}
	case OpSub:
		if y.Op == OpConst && y.Val == 0 {
			return x
		}
		if x == y {
			return c.Const(w, 0)
		}
	case OpMul:
		if x.Op == OpConst {
			x, y = y, x
		}
		if y.Op == OpConst {
			if y.Val == 0 {
				return y
			}
			if y.Val == 1 {
				return x
			}
		}
	case OpBvAnd:
		if x.Op == OpConst {
			x, y = y, x
		}
		if y.Op == OpConst {
			if y.Val == 0 {
				return y
			}
			if y.Val == mask(w) {
				return x
			}
		}
		if x == y {
			return x
		}
	case OpBvOr:
		if x.Op == OpConst {
			x, y = y, x
		}
		if y.Op == OpConst {
			if y.Val == 0 {
				return x
			}
			if y.Val == mask(w) {
				return y
			}
		}
		if x == y {
			return x
		}
	case OpBvXor:
		if x.Op == OpConst && x.Val == 0 {
			return y
		}
		if y.Op == OpConst && y.Val == 0 {
			return x
		}
		if x == y {
			return c.Const(w, 0)
		}
	case OpShl, OpLShr, OpAShr:
		if y.Op == OpConst && y.Val == 0 {
			return x
		}
		if y.Op == OpConst && y.Val >= uint64(w) && op != OpAShr {
			return c.Const(w, 0)
		}
		if x.Op == OpConst && x.Val == 0 {
			return x
		}
	case OpUDiv:
		if y.Op == OpConst && y.Val == 1 {
			return x
		}
	}
	return c.mk(op, w, 0, "", 0, 0, x, y)
}

func (c *Ctx) Cmp(op Op, x, y *Term) *Term {
	if x.W != y.W {
		panic(fmt.Sprintf("sym.Cmp: width mismatch %d vs %d", x.W, y.W))
	}
	if x.Op == OpConst && y.Op == OpConst {
		switch op {
		case OpUlt:
			return c.Bool(x.Val < y.Val)
		case OpUle:
			return c.Bool(x.Val <= y.Val)
		case OpSlt:
			return c.Bool(sext64(x.Val, x.W) < sext64(y.Val, y.W))
		case OpSle:
			return c.Bool(sext64(x.Val, x.W) <= sext64(y.Val, y.W))
		}
	}
	if x == y {
		return c.Bool(op == OpUle || op == OpSle)
	}
	switch op {
	case OpUlt:
		if y.Op == OpConst && y.Val == 0 {
			return c.False()
		}
		if x.Op == OpConst && x.Val == mask(x.W) {
			return c.False()
		}
	case OpUle:
		if x.Op == OpConst && x.Val == 0 {
			return c.True()
		}
		if y.Op == OpConst && y.Val == mask(y.W) {
			return c.True()
		}
	}
	// comparisons of zero-extended values against small constants stay in the narrow width
	if (op == OpUlt || op == OpUle) && x.Op == OpZext && y.Op == OpConst {
		in := x.Args[0]
		if y.Val > mask(in.W) {
			return c.True()
		}
		return c.Cmp(op, in, c.Const(in.W, y.Val))
	}
	if (op == OpUlt || op == OpUle) && y.Op == OpZext && x.Op == OpConst {
		in := y.Args[0]
		if x.Val > mask(in.W) {
			return c.False()
		}
		return c.Cmp(op, c.Const(in.W, x.Val), in)
	}
	return c.mk(op, 0, 0, "", 0, 0, x, y)
}

func (c *Ctx) BvNot(x *Term) *Term {
	if x.Op == OpConst {
		return c.Const(x.W, ^x.Val)
	}
	if x.Op == OpBvNot {
		return x.Args[0]
	}
	return c.mk(OpBvNot, x.W, 0, "", 0, 0, x)
}

func (c *Ctx) Neg(x *Term) *Term {
	if x.Op == OpConst {
		return c.Const(x.W, -x.Val)
	}
	return c.mk(OpNeg, x.W, 0, "", 0, 0, x)
}

func (c *Ctx) Extract(x *Term, hi, lo int) *Term {
	if hi < lo || hi >= x.W {
		panic(fmt.Sprintf("sym.Extract[%d:%d] of width %d", hi, lo, x.W))
	}
	w := hi - lo + 1
	if w == x.W {
		return x
	}
	if x.Op == OpConst {
		return c.Const(w, x.Val>>uint(lo))
	}
	switch x.Op {
	case OpZext:
		in := x.Args[0]
		if hi < in.W {
			return c.Extract(in, hi, lo)
		}
		if lo >= in.W {
			return c.Const(w, 0)
		}
		if lo == 0 {
			return c.Zext(in, w)
		}
	case OpSext:
		in := x.Args[0]
		if hi < in.W {
			return c.Extract(in, hi, lo)
		}
		if lo == 0 && w > in.W {
			return c.Sext(in, w)
		}
	case OpExtract:
		return c.Extract(x.Args[0], hi+x.B, lo+x.B)
	case OpConcat:
		h, l := x.Args[0], x.Args[1]
		if hi < l.W {
			return c.Extract(l, hi, lo)
		}
		if lo >= l.W {
			return c.Extract(h, hi-l.W, lo-l.W)
		}
	case OpBvAnd, OpBvOr, OpBvXor:
		if lo == 0 || true {
			return c.Bin(x.Op, c.Extract(x.Args[0], hi, lo), c.Extract(x.Args[1], hi, lo))
		}
	case OpAdd, OpSub, OpMul:
		if lo == 0 {
			return c.Bin(x.Op, c.Extract(x.Args[0], hi, 0), c.Extract(x.Args[1], hi, 0))
		}
	case OpIte:
		if x.Args[1].Op == OpConst || x.Args[2].Op == OpConst {
			return c.Ite(x.Args[0], c.Extract(x.Args[1], hi, lo), c.Extract(x.Args[2], hi, lo))
		}
	case OpLShr:
		// (x >> k)[hi:lo] with constant k and no shifted-in zeros in range
		if k := x.Args[1]; k.Op == OpConst && int(k.Val)+hi < x.W {
			return c.Extract(x.Args[0], hi+int(k.Val), lo+int(k.Val))
		}
	case OpShl:
		if k := x.Args[1]; k.Op == OpConst && lo >= int(k.Val) {
			return c.Extract(x.Args[0], hi-int(k.Val), lo-int(k.Val))
		}
	}
	return c.mk(OpExtract, w, 0, "", hi, lo, x)
}

// Zext zero-extends (or returns x) to width w.
func (c *Ctx) Zext(x *Term, w int) *Term {
	if w == x.W {
		return x
	}
	if w < x.W {
		return c.Extract(x, w-1, 0)
	}
	if x.Op == OpConst {
		return c.Const(w, x.Val)
	}
	if x.Op == OpZext {
		return c.Zext(x.Args[0], w)
	}
	return c.mk(OpZext, w, 0, "", w-x.W, 0, x)
}

func (c *Ctx) Sext(x *Term, w int) *Term {
	if w == x.W {
		return x
	}
	if w < x.W {
		return c.Extract(x, w-1, 0)
	}
	if x.Op == OpConst {
		return c.Const(w, uint64(sext64(x.Val, x.W)))
	}
	if x.Op == OpZext { // sign bit known 0
		return c.Zext(x.Args[0], w)
	}
	return c.mk(OpSext, w, 0, "", w-x.W, 0, x)
}

func (c *Ctx) Concat(hi, lo *Term) *Term {
	w := hi.W + lo.W
	if w > 64 {
		panic("sym.Concat: width > 64")
	}
	if hi.Op == OpConst && lo.Op == OpConst {
		return c.Const(w, hi.Val<<uint(lo.W)|lo.Val)
	}
	if hi.Op == OpConst && hi.Val == 0 {
		return c.Zext(lo, w)
	}
	// concat(extract(x,h,m+1), extract(x,m,l)) = extract(x,h,l)
	if hi.Op == OpExtract && lo.Op == OpExtract && hi.Args[0] == lo.Args[0] && hi.B == lo.A+1 {
		return c.Extract(hi.Args[0], hi.A, lo.B)
	}
	return c.mk(OpConcat, w, 0, "", 0, 0, hi, lo)
}

// ---- floating point -------------------------------------------------------

func fbits(w int, f float64) uint64 {
	if w == 32 {
		return uint64(math.Float32bits(float32(f)))
	}
	return math.Float64bits(f)
}

func ffrom(w int, b uint64) float64 {
	if w == 32 {
		return float64(math.Float32frombits(uint32(b)))
	}
	return math.Float64frombits(b)
}

// FArith builds x op y on IEEE bit patterns (RNE). NaN results follow amd64
// SSE: first operand if it is a NaN (quieted), else second operand if NaN
// (quieted), else the default NaN (sign bit set).
func (c *Ctx) FArith(op Op, x, y *Term) *Term {
	if x.W != y.W {
		panic("sym.FArith width mismatch")
	}
	if x.Op == OpConst && y.Op == OpConst {
		w := x.W
		if w == 32 {
			a, b := math.Float32frombits(uint32(x.Val)), math.Float32frombits(uint32(y.Val))
			var r float32
			switch op {
			case OpFAdd:
				r = a + b
			case OpFSub:
				r = a - b
			case OpFMul:
				r = a * b
			case OpFDiv:
				r = a / b
			}
			return c.Const(32, uint64(math.Float32bits(r)))
		}
		a, b := math.Float64frombits(x.Val), math.Float64frombits(y.Val)
		var r float64
		switch op {
		case OpFAdd:
			r = a + b
		case OpFSub:
			r = a - b
		case OpFMul:
			r = a * b
		case OpFDiv:
			r = a / b
		}
		return c.Const(64, math.Float64bits(r))
	}
	return c.mk(op, x.W, 0, "", 0, 0, x, y)
}

func (c *Ctx) FCmp(op Op, x, y *Term) *Term {
	if x.W != y.W {
		panic("sym.FCmp width mismatch")
	}
	if x.Op == OpConst && y.Op == OpConst {
		a, b := ffrom(x.W, x.Val), ffrom(y.W, y.Val)
		switch op {
		case OpFLt:
			return c.Bool(a < b)
		case OpFLe:
			return c.Bool(a <= b)
		case OpFEq:
			return c.Bool(a == b)
		}
	}
	if !UseFPTheory {
		switch op {
		case OpFLt:
			return c.bvFLt(x, y)
		case OpFLe:
			return c.bvFLe(x, y)
		case OpFEq:
			return c.bvFEq(x, y)
		}
	}
	return c.mk(op, 0, 0, "", 0, 0, x, y)
}

// FToF converts between float widths (32<->64), amd64 semantics for NaN
// (payload shifted, quiet bit set).
func (c *Ctx) FToF(x *Term, w int) *Term {
	if x.W == w {
		return x
	}
	if x.Op == OpConst {
		if w == 32 {
			return c.Const(32, uint64(math.Float32bits(float32(math.Float64frombits(x.Val)))))
		}
		return c.Const(64, math.Float64bits(float64(math.Float32frombits(uint32(x.Val)))))
	}
	if !UseFPTheory {
		if w == 32 {
			return c.bvF64to32(x)
		}
		return c.bvF32to64(x)
	}
	return c.mk(OpFToF, w, 0, "", 0, 0, x)
}

func (c *Ctx) FIsNaN(x *Term) *Term {
	if x.W == 32 {
		e := c.Extract(x, 30, 23)
		m := c.Extract(x, 22, 0)
		return c.And(c.Eq(e, c.Const(8, 0xff)), c.Not(c.Eq(m, c.Const(23, 0))))
	}
	e := c.Extract(x, 62, 52)
	m := c.Extract(x, 51, 0)
	return c.And(c.Eq(e, c.Const(11, 0x7ff)), c.Not(c.Eq(m, c.Const(52, 0))))
}

// FToInt converts float bits to a signed/unsigned integer of width w with the
// behaviour of Go on amd64 (see printer for the exact definition).
func (c *Ctx) FToInt(x *Term, w int, signed bool) *Term {
	op := OpFToUInt
	if signed {
		op = OpFToSInt
	}
	if x.Op == OpConst {
		return c.Const(w, FToIntConcrete(ffrom(x.W, x.Val), w, signed))
	}
	if !UseFPTheory {
		return c.bvFToInt(x, w, signed)
	}
	return c.mk(op, w, 0, "", 0, 0, x)
}

// FToIntConcrete mirrors Go/amd64 (gc, SSE2) float->int conversion for all inputs:
//   int8/16/32, uint8/16: CVTTSD2SL (32-bit indefinite 0x80000000), then truncate
//   uint32, int64/int:    CVTTSD2SQ (64-bit indefinite 0x8000000000000000), then truncate
//   uint64/uint/uintptr:  x < 2^63 ? cvtq(x) : cvtq(x-2^63) | 2^63
// (validated against the native compiler by the engine self-test).
func FToIntConcrete(f float64, w int, signed bool) uint64 {
	cvtq := func(f float64) uint64 {
		if f != f || f >= 9223372036854775808.0 || f < -9223372036854775808.0 {
			return 0x8000000000000000
		}
		return uint64(int64(f))
	}
	cvtl := func(f float64) uint64 {
		if f != f || f >= 2147483648.0 || f <= -2147483649.0 {
			return 0x80000000
		}
		return uint64(uint32(int32(f)))
	}
	switch {
	case w <= 16 || (w == 32 && signed):
		return cvtl(f) & mask(w)
	case w == 32 || signed:
		return cvtq(f) & mask(w)
	default:
		if f < 9223372036854775808.0 {
			return cvtq(f)
		}
		return cvtq(f-9223372036854775808.0) | 0x8000000000000000
	}
}

func (c *Ctx) IntToF(x *Term, w int, signed bool) *Term {
	op := OpUIntToF
	if signed {
		op = OpSIntToF
	}
	if x.Op == OpConst {
		var f float64
		if signed {
			if w == 32 {
				return c.Const(32, uint64(math.Float32bits(float32(sext64(x.Val, x.W)))))
			}
			f = float64(sext64(x.Val, x.W))
		} else {
			if w == 32 {
				return c.Const(32, uint64(math.Float32bits(float32(x.Val))))
			}
			f = float64(x.Val)
		}
		return c.Const(64, math.Float64bits(f))
	}
	if !UseFPTheory {
		return c.bvIntToF(x, w, signed)
	}
	return c.mk(op, w, 0, "", 0, 0, x)
}

func (c *Ctx) UF(name string, w int, args ...*Term) *Term {
	return c.mk(OpUF, w, 0, name, 0, 0, args...)
}

// ---- evaluation under a model --------------------------------------------

// Eval evaluates t under an assignment of variables (missing variables = 0).
// FP ops are evaluated with host arithmetic (amd64). UFs cannot be evaluated.
func Eval(t *Term, env map[string]uint64, memo map[*Term]uint64) uint64 {
	if v, ok := memo[t]; ok {
		return v
	}
	var r uint64
	a := func(i int) uint64 { return Eval(t.Args[i], env, memo) }
	b2u := func(b bool) uint64 {
		if b {
			return 1
		}
		return 0
	}
	switch t.Op {
	case OpConst:
		r = t.Val
	case OpVar:
		r = env[t.Name] & mask(maxInt(t.W, 1))
	case OpNot:
		r = 1 - a(0)
	case OpAnd:
		r = a(0) & a(1)
	case OpOr:
		r = a(0) | a(1)
	case OpEq:
		r = b2u(a(0) == a(1))
	case OpIte:
		if a(0) != 0 {
			r = a(1)
		} else {
			r = a(2)
		}
	case OpAdd, OpSub, OpMul, OpUDiv, OpURem, OpSDiv, OpSRem, OpBvAnd, OpBvOr, OpBvXor, OpShl, OpLShr, OpAShr:
		r, _ = evalBin(t.Op, t.W, a(0), a(1))
	case OpBvNot:
		r = ^a(0) & mask(t.W)
	case OpNeg:
		r = -a(0) & mask(t.W)
	case OpUlt:
		r = b2u(a(0) < a(1))
	case OpUle:
		r = b2u(a(0) <= a(1))
	case OpSlt:
		r = b2u(sext64(a(0), t.Args[0].W) < sext64(a(1), t.Args[0].W))
	case OpSle:
		r = b2u(sext64(a(0), t.Args[0].W) <= sext64(a(1), t.Args[0].W))
	case OpConcat:
		r = a(0)<<uint(t.Args[1].W) | a(1)
	case OpExtract:
		r = (a(0) >> uint(t.B)) & mask(t.W)
	case OpZext:
		r = a(0)
	case OpSext:
		r = uint64(sext64(a(0), t.Args[0].W)) & mask(t.W)
	case OpFAdd, OpFSub, OpFMul, OpFDiv:
		c := NewCtx()
		r = c.FArith(t.Op, c.Const(t.W, a(0)), c.Const(t.W, a(1))).Val
	case OpFLt, OpFLe, OpFEq:
		c := NewCtx()
		w := t.Args[0].W
		r = c.FCmp(t.Op, c.Const(w, a(0)), c.Const(w, a(1))).Val
	case OpFToF:
		c := NewCtx()
		r = c.FToF(c.Const(t.Args[0].W, a(0)), t.W).Val
	case OpFToSInt, OpFToUInt:
		r = FToIntConcrete(ffrom(t.Args[0].W, a(0)), t.W, t.Op == OpFToSInt)
	case OpSIntToF, OpUIntToF:
		c := NewCtx()
		r = c.IntToF(c.Const(t.Args[0].W, a(0)), t.W, t.Op == OpSIntToF).Val
	default:
		panic("sym.Eval: cannot evaluate " + t.String())
	}
	memo[t] = r
	return r
}

func maxInt(a, b int) int {
	if a > b {
		return a
	}
	return b
}

var _ = bits.Len64
