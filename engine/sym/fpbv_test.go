package sym

import (
	"math"
	"math/rand"
	"strconv"
	"testing"
)

func interesting64() []uint64 {
	vs := []uint64{0, 1, 2, 1 << 63, 1<<63 | 1, 0x7ff0000000000000, 0xfff0000000000000, 0x7ff8000000000000, 0x7ff0000000000001,
		0xfff8000000000001, 0x7fefffffffffffff, 0x0010000000000000, 0x000fffffffffffff,
		math.Float64bits(1), math.Float64bits(-1), math.Float64bits(0.1), math.Float64bits(2147483648), math.Float64bits(-2147483648),
		math.Float64bits(-2147483649), math.Float64bits(2147483647.5), math.Float64bits(-2147483648.5), math.Float64bits(9223372036854775808), math.Float64bits(-9223372036854775808),
		math.Float64bits(18446744073709551615), math.Float64bits(1e300), math.Float64bits(-1e300), math.Float64bits(4294967296), math.Float64bits(4294967295.5),
		math.Float64bits(float64(math.MaxFloat32)), math.Float64bits(float64(math.MaxFloat32) * 1.0000001), math.Float64bits(3.4028235677973366e+38),
		math.Float64bits(float64(math.SmallestNonzeroFloat32)), math.Float64bits(float64(math.SmallestNonzeroFloat32) / 2), math.Float64bits(float64(math.SmallestNonzeroFloat32) * 0.75),
		math.Float64bits(float64(math.SmallestNonzeroFloat32) * 1.5), math.Float64bits(1.1754943508222875e-38), math.Float64bits(1.1754942e-38),
	}
	r := rand.New(rand.NewSource(1))
	for i := 0; i < 200000; i++ {
		v := r.Uint64()
		switch i % 4 {
		case 1: // float32-range exponents
			e := uint64(1023 - 160 + r.Intn(320))
			v = v&^(0x7ff<<52) | e<<52
		case 2: // near-integers
			v = math.Float64bits(float64(int64(r.Uint64()>>uint(r.Intn(64)))) + float64(r.Intn(3))/2)
			if r.Intn(2) == 0 {
				v |= 1 << 63
			}
		case 3: // float32-exact values
			v = math.Float64bits(float64(math.Float32frombits(r.Uint32())))
		}
		vs = append(vs, v)
	}
	return vs
}

func TestBVFloatEncodings(t *testing.T) {
	c := NewCtx()
	for _, v := range interesting64() {
		f := math.Float64frombits(v)
		if got, want := c.bvF64to32(c.Const(64, v)).Val, uint64(math.Float32bits(float32(f))); got != want {
			t.Fatalf("F64to32(%#x): got %#x want %#x", v, got, want)
		}
		for _, w := range []int{8, 16, 32, 64} {
			for _, s := range []bool{false, true} {
				if got, want := c.bvFToInt(c.Const(64, v), w, s).Val, FToIntConcrete(f, w, s); got != want {
					t.Fatalf("FToInt(%#x=%v,%d,%v): got %#x want %#x", v, f, w, s, got, want)
				}
			}
		}
		// native cross-check of FToIntConcrete itself
		if got, want := FToIntConcrete(f, 64, true), uint64(int64(f)); got != want {
			t.Fatalf("native int64(%v) = %#x, model %#x", f, want, got)
		}
		if got, want := FToIntConcrete(f, 64, false), uint64(f); got != want {
			t.Fatalf("native uint64(%v) = %#x, model %#x", f, want, got)
		}
		if got, want := FToIntConcrete(f, 32, true), uint64(uint32(int32(f))); got != want {
			t.Fatalf("native int32(%v) = %#x, model %#x", f, want, got)
		}
		if got, want := FToIntConcrete(f, 32, false), uint64(uint32(f)); got != want {
			t.Fatalf("native uint32(%v) = %#x, model %#x", f, want, got)
		}
		if got, want := FToIntConcrete(f, 16, true), uint64(uint16(int16(f))); got != want {
			t.Fatalf("native int16(%v) = %#x, model %#x", f, want, got)
		}
		if got, want := FToIntConcrete(f, 8, false), uint64(uint8(f)); got != want {
			t.Fatalf("native uint8(%v) = %#x, model %#x", f, want, got)
		}
		v32 := uint32(v >> 17)
		if got, want := c.bvF32to64(c.Const(32, uint64(v32))).Val, math.Float64bits(float64(math.Float32frombits(v32))); got != want {
			t.Fatalf("F32to64(%#x): got %#x want %#x", v32, got, want)
		}
		if got, want := c.bvIntToF(c.Const(64, v), 64, true).Val, math.Float64bits(float64(int64(v))); got != want {
			t.Fatalf("IntToF64 signed(%#x): got %#x want %#x", v, got, want)
		}
		if got, want := c.bvIntToF(c.Const(64, v), 64, false).Val, math.Float64bits(float64(v)); got != want {
			t.Fatalf("IntToF64 unsigned(%#x): got %#x want %#x", v, got, want)
		}
		if got, want := c.bvIntToF(c.Const(64, v), 32, true).Val, uint64(math.Float32bits(float32(int64(v)))); got != want {
			t.Fatalf("IntToF32 signed(%#x): got %#x want %#x", v, got, want)
		}
		if got, want := c.bvIntToF(c.Const(64, v), 32, false).Val, uint64(math.Float32bits(float32(v))); got != want {
			t.Fatalf("IntToF32 unsigned(%#x): got %#x want %#x", v, got, want)
		}
		w := v*0x9E3779B97F4A7C15 + 12345
		if v%3 == 0 {
			w = v
		}
		g := math.Float64frombits(w)
		b2u := func(b bool) uint64 {
			if b {
				return 1
			}
			return 0
		}
		if c.bvFLt(c.Const(64, v), c.Const(64, w)).Val != b2u(f < g) || c.bvFLe(c.Const(64, v), c.Const(64, w)).Val != b2u(f <= g) || c.bvFEq(c.Const(64, v), c.Const(64, w)).Val != b2u(f == g) {
			t.Fatalf("compare %v %v", f, g)
		}
	}
}

func TestFFixedScaled(t *testing.T) {
	c := NewCtx()
	vs := interesting64()
	r := rand.New(rand.NewSource(7))
	for i := 0; i < 400000; i++ {
		switch i % 4 {
		case 0: // hundredths and their neighbours
			f := float64(r.Intn(4000001)-2000000) / 100
			vs = append(vs, math.Float64bits(f), math.Float64bits(f)+1, math.Float64bits(f)-1)
		case 1: // exact ties at the third decimal where representable (k/8, k/1024)
			vs = append(vs, math.Float64bits(float64(r.Intn(1<<20)-1<<19)/8), math.Float64bits(float64(r.Intn(1<<24))/1024))
		case 2: // small magnitudes
			vs = append(vs, math.Float64bits(r.Float64()*math.Pow(10, float64(r.Intn(12)-8)))|uint64(r.Intn(2))<<63)
		case 3:
			vs = append(vs, math.Float64bits(float64(r.Int63())/float64(int64(1)<<uint(r.Intn(62)))))
		}
	}
	for _, v := range vs {
		f := math.Float64frombits(v)
		for pi, scale := range []uint64{1, 10, 100, 1000} {
			ok, neg, q := c.FFixedScaled(c.Const(64, v), scale)
			if ok.Op != OpConst || q.Op != OpConst {
				t.Fatalf("not folded for %#x", v)
			}
			if !ok.isTrue() {
				if !(math.IsNaN(f) || math.IsInf(f, 0) || math.Abs(f)*float64(scale) >= float64(uint64(1)<<61)) {
					t.Fatalf("model rejects %v (scale %d)", f, scale)
				}
				continue
			}
			s := ""
			if neg.isTrue() {
				s = "-"
			}
			ip, fp := q.Val/scale, q.Val%scale
			s += strconv.FormatUint(ip, 10)
			if pi > 0 {
				fs := strconv.FormatUint(fp, 10)
				for len(fs) < pi {
					fs = "0" + fs
				}
				s += "." + fs
			}
			if want := strconv.FormatFloat(f, 'f', pi, 64); s != want {
				t.Fatalf("%%.%df of %v (%#x): model %q, strconv %q", pi, f, v, s, want)
			}
		}
	}
}
