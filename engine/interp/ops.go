// Copyright 2013 The Go Authors. All rights reserved.
// Use of this source code is governed by a BSD-style
// license that can be found in the LICENSE file.

package interp

import (
	"bytes"
	"fmt"
	"go/constant"
	"go/token"
	"go/types"
	"os"
	"unsafe"

	"golang.org/x/tools/go/ssa"

	"verif/engine/sym"
)

// If the target program panics, the interpreter panics with this type.
type targetPanic struct {
	v value
}

func (p targetPanic) String() string {
	return toString(p.v)
}

// If the target program calls exit, the interpreter panics with this type.
type exitPanic int

// constValue returns the value of the constant with the
// dynamic type tag appropriate for c.Type().
func constValue(c *ssa.Const) value {
	if c.Value == nil {
		return zero(c.Type()) // typed zero
	}
	// c is not a type parameter so it's underlying type is basic.

	if t, ok := c.Type().Underlying().(*types.Basic); ok {
		// TODO(adonovan): eliminate untyped constants from SSA form.
		switch t.Kind() {
		case types.Bool, types.UntypedBool:
			return constant.BoolVal(c.Value)
		case types.Int, types.UntypedInt:
			// Assume sizeof(int) is same on host and target.
			return int(c.Int64())
		case types.Int8:
			return int8(c.Int64())
		case types.Int16:
			return int16(c.Int64())
		case types.Int32, types.UntypedRune:
			return int32(c.Int64())
		case types.Int64:
			return c.Int64()
		case types.Uint:
			// Assume sizeof(uint) is same on host and target.
			return uint(c.Uint64())
		case types.Uint8:
			return uint8(c.Uint64())
		case types.Uint16:
			return uint16(c.Uint64())
		case types.Uint32:
			return uint32(c.Uint64())
		case types.Uint64:
			return c.Uint64()
		case types.Uintptr:
			// Assume sizeof(uintptr) is same on host and target.
			return uintptr(c.Uint64())
		case types.Float32:
			return float32(c.Float64())
		case types.Float64, types.UntypedFloat:
			return c.Float64()
		case types.Complex64:
			return complex64(c.Complex128())
		case types.Complex128, types.UntypedComplex:
			return c.Complex128()
		case types.String, types.UntypedString:
			if c.Value.Kind() == constant.String {
				return constant.StringVal(c.Value)
			}
			return string(rune(c.Int64()))
		}
	}

	panic(fmt.Sprintf("constValue: %s", c))
}

// fitsInt returns true if x fits in type int according to sizes.
func fitsInt(x int64, sizes types.Sizes) bool {
	intSize := sizes.Sizeof(types.Typ[types.Int])
	if intSize < sizes.Sizeof(types.Typ[types.Int64]) {
		maxInt := int64(1)<<((intSize*8)-1) - 1
		minInt := -int64(1) << ((intSize * 8) - 1)
		return minInt <= x && x <= maxInt
	}
	return true
}

// asInt64 converts x, which must be an integer, to an int64.
//
// Callers that need a value directly usable as an int should combine this with fitsInt().
func asInt64(x value) int64 {
	switch x := x.(type) {
	case int:
		return int64(x)
	case int8:
		return int64(x)
	case int16:
		return int64(x)
	case int32:
		return int64(x)
	case int64:
		return x
	case uint:
		return int64(x)
	case uint8:
		return int64(x)
	case uint16:
		return int64(x)
	case uint32:
		return int64(x)
	case uint64:
		return int64(x)
	case uintptr:
		return int64(x)
	}
	panic(fmt.Sprintf("cannot convert %T to int64", x))
}

// asUint64 converts x, which must be an unsigned integer, to a uint64
// suitable for use as a bitwise shift count.
func asUint64(x value) uint64 {
	switch x := x.(type) {
	case uint:
		return uint64(x)
	case uint8:
		return uint64(x)
	case uint16:
		return uint64(x)
	case uint32:
		return uint64(x)
	case uint64:
		return x
	case uintptr:
		return uint64(x)
	}
	panic(fmt.Sprintf("cannot convert %T to uint64", x))
}

// asUnsigned returns the value of x, which must be an integer type, as its equivalent unsigned type,
// and returns true if x is non-negative.
func asUnsigned(x value) (value, bool) {
	switch x := x.(type) {
	case int:
		return uint(x), x >= 0
	case int8:
		return uint8(x), x >= 0
	case int16:
		return uint16(x), x >= 0
	case int32:
		return uint32(x), x >= 0
	case int64:
		return uint64(x), x >= 0
	case uint, uint8, uint32, uint64, uintptr:
		return x, true
	}
	panic(fmt.Sprintf("cannot convert %T to unsigned", x))
}

// zero returns a new "zero" value of the specified type.
func zero(t types.Type) value {
	switch t := t.(type) {
	case *types.Basic:
		if t.Kind() == types.UntypedNil {
			panic("untyped nil has no zero value")
		}
		if t.Info()&types.IsUntyped != 0 {
			// TODO(adonovan): make it an invariant that
			// this is unreachable.  Currently some
			// constants have 'untyped' types when they
			// should be defaulted by the typechecker.
			t = types.Default(t).(*types.Basic)
		}
		switch t.Kind() {
		case types.Bool:
			return false
		case types.Int:
			return int(0)
		case types.Int8:
			return int8(0)
		case types.Int16:
			return int16(0)
		case types.Int32:
			return int32(0)
		case types.Int64:
			return int64(0)
		case types.Uint:
			return uint(0)
		case types.Uint8:
			return uint8(0)
		case types.Uint16:
			return uint16(0)
		case types.Uint32:
			return uint32(0)
		case types.Uint64:
			return uint64(0)
		case types.Uintptr:
			return uintptr(0)
		case types.Float32:
			return float32(0)
		case types.Float64:
			return float64(0)
		case types.Complex64:
			return complex64(0)
		case types.Complex128:
			return complex128(0)
		case types.String:
			return ""
		case types.UnsafePointer:
			return unsafe.Pointer(nil)
		default:
			panic(fmt.Sprint("zero for unexpected type:", t))
		}
	case *types.Pointer:
		return (*value)(nil)
	case *types.Array:
		a := make(array, t.Len())
		for i := range a {
			a[i] = zero(t.Elem())
		}
		return a
	case *types.Named:
		return zero(t.Underlying())
	case *types.Alias:
		return zero(types.Unalias(t))
	case *types.Interface:
		return iface{} // nil type, methodset and value
	case *types.Slice:
		return []value(nil)
	case *types.Struct:
		s := make(structure, t.NumFields())
		for i := range s {
			s[i] = zero(t.Field(i).Type())
		}
		return s
	case *types.Tuple:
		if t.Len() == 1 {
			return zero(t.At(0).Type())
		}
		s := make(tuple, t.Len())
		for i := range s {
			s[i] = zero(t.At(i).Type())
		}
		return s
	case *types.Chan:
		return chan value(nil)
	case *types.Map:
		return (*omap)(nil)
	case *types.Signature:
		return (*ssa.Function)(nil)
	}
	panic(fmt.Sprint("zero: unexpected ", t))
}

// slice returns x[lo:hi:max].  Any of lo, hi and max may be nil.
func slice(i *interpreter, x, lo, hi, max value) value {
	var Len, Cap int
	switch x := x.(type) {
	case string:
		Len = len(x)
		Cap = Len
	case sstr:
		Len = len(x)
		Cap = Len
	case []value:
		Len = len(x)
		Cap = cap(x)
	case *value: // *array
		if x == nil {
			panic(runtimeErr("invalid memory address or nil pointer dereference"))
		}
		a := (*x).(array)
		Len = len(a)
		Cap = cap(a)
	case *byteView:
		return x.slice(i, lo, hi, max)
	}

	conc := func(v value, what string) int64 {
		if t, ok := v.(*sym.Term); ok {
			ps := psOf(t)
			// out-of-range values (as unsigned > Cap) all lead to the same panic
			oob := ps.cx.Cmp(sym.OpUlt, ps.cx.Const(t.W, uint64(Cap)), t)
			if ps.branch(oob) {
				panic(runtimeErr("slice bounds out of range [symbolic " + what + "]"))
			}
			return int64(ps.concretize(t, "slice "+what))
		}
		return asInt64(v)
	}

	l := int64(0)
	if lo != nil {
		l = conc(lo, "low")
	}

	h := int64(Len)
	if hi != nil {
		h = conc(hi, "high")
	}

	m := int64(Cap)
	if max != nil {
		m = conc(max, "max")
	}
	if l < 0 || h < l || m < h || m > int64(Cap) {
		panic(runtimeErr(fmt.Sprintf("slice bounds out of range [%d:%d:%d] with capacity %d", l, h, m, Cap)))
	}

	switch x := x.(type) {
	case string:
		return x[l:h]
	case sstr:
		return mkstr([]value(x[l:h]))
	case []value:
		return x[l:h:m]
	case *value: // *array
		a := (*x).(array)
		return []value(a)[l:h:m]
	}
	panic(fmt.Sprintf("slice: unexpected X type: %T", x))
}

// lookup returns x[idx] where x is a map.
func lookup(i *interpreter, instr *ssa.Lookup, x, idx value) value {
	switch x := x.(type) { // map
	case *omap:
		v, ok := x.lookup(i, idx)
		if !ok {
			v = zero(instr.X.Type().Underlying().(*types.Map).Elem())
		}
		if instr.CommaOk {
			v = tuple{v, ok}
		}
		return v
	}
	panic(fmt.Sprintf("unexpected x type in Lookup: %T", x))
}

// binop implements all arithmetic and logical binary operators for
// numeric datatypes and strings.  Both operands must have identical
// dynamic type.
func binop(op token.Token, t types.Type, x, y value) value {
	return binop2(op, t, nil, x, y)
}

func binop2(op token.Token, t, ty types.Type, x, y value) value {
	if isSym(x) || isSym(y) {
		return symBinop(op, t, ty, x, y)
	}
	switch op {
	case token.QUO, token.REM:
		if isZeroInt(y) {
			panic(runtimeErr("integer divide by zero"))
		}
	}
	switch op {
	case token.ADD:
		switch x.(type) {
		case int:
			return x.(int) + y.(int)
		case int8:
			return x.(int8) + y.(int8)
		case int16:
			return x.(int16) + y.(int16)
		case int32:
			return x.(int32) + y.(int32)
		case int64:
			return x.(int64) + y.(int64)
		case uint:
			return x.(uint) + y.(uint)
		case uint8:
			return x.(uint8) + y.(uint8)
		case uint16:
			return x.(uint16) + y.(uint16)
		case uint32:
			return x.(uint32) + y.(uint32)
		case uint64:
			return x.(uint64) + y.(uint64)
		case uintptr:
			return x.(uintptr) + y.(uintptr)
		case float32:
			return x.(float32) + y.(float32)
		case float64:
			return x.(float64) + y.(float64)
		case complex64:
			return x.(complex64) + y.(complex64)
		case complex128:
			return x.(complex128) + y.(complex128)
		case string:
			return x.(string) + y.(string)
		}

	case token.SUB:
		switch x.(type) {
		case int:
			return x.(int) - y.(int)
		case int8:
			return x.(int8) - y.(int8)
		case int16:
			return x.(int16) - y.(int16)
		case int32:
			return x.(int32) - y.(int32)
		case int64:
			return x.(int64) - y.(int64)
		case uint:
			return x.(uint) - y.(uint)
		case uint8:
			return x.(uint8) - y.(uint8)
		case uint16:
			return x.(uint16) - y.(uint16)
		case uint32:
			return x.(uint32) - y.(uint32)
		case uint64:
			return x.(uint64) - y.(uint64)
		case uintptr:
			return x.(uintptr) - y.(uintptr)
		case float32:
			return x.(float32) - y.(float32)
		case float64:
			return x.(float64) - y.(float64)
		case complex64:
			return x.(complex64) - y.(complex64)
		case complex128:
			return x.(complex128) - y.(complex128)
		}

	case token.MUL:
		switch x.(type) {
		case int:
			return x.(int) * y.(int)
		case int8:
			return x.(int8) * y.(int8)
		case int16:
			return x.(int16) * y.(int16)
		case int32:
			return x.(int32) * y.(int32)
		case int64:
			return x.(int64) * y.(int64)
		case uint:
			return x.(uint) * y.(uint)
		case uint8:
			return x.(uint8) * y.(uint8)
		case uint16:
			return x.(uint16) * y.(uint16)
		case uint32:
			return x.(uint32) * y.(uint32)
		case uint64:
			return x.(uint64) * y.(uint64)
		case uintptr:
			return x.(uintptr) * y.(uintptr)
		case float32:
			return x.(float32) * y.(float32)
		case float64:
			return x.(float64) * y.(float64)
		case complex64:
			return x.(complex64) * y.(complex64)
		case complex128:
			return x.(complex128) * y.(complex128)
		}

	case token.QUO:
		switch x.(type) {
		case int:
			return x.(int) / y.(int)
		case int8:
			return x.(int8) / y.(int8)
		case int16:
			return x.(int16) / y.(int16)
		case int32:
			return x.(int32) / y.(int32)
		case int64:
			return x.(int64) / y.(int64)
		case uint:
			return x.(uint) / y.(uint)
		case uint8:
			return x.(uint8) / y.(uint8)
		case uint16:
			return x.(uint16) / y.(uint16)
		case uint32:
			return x.(uint32) / y.(uint32)
		case uint64:
			return x.(uint64) / y.(uint64)
		case uintptr:
			return x.(uintptr) / y.(uintptr)
		case float32:
			return x.(float32) / y.(float32)
		case float64:
			return x.(float64) / y.(float64)
		case complex64:
			return x.(complex64) / y.(complex64)
		case complex128:
			return x.(complex128) / y.(complex128)
		}

	case token.REM:
		switch x.(type) {
		case int:
			return x.(int) % y.(int)
		case int8:
			return x.(int8) % y.(int8)
		case int16:
			return x.(int16) % y.(int16)
		case int32:
			return x.(int32) % y.(int32)
		case int64:
			return x.(int64) % y.(int64)
		case uint:
			return x.(uint) % y.(uint)
		case uint8:
			return x.(uint8) % y.(uint8)
		case uint16:
			return x.(uint16) % y.(uint16)
		case uint32:
			return x.(uint32) % y.(uint32)
		case uint64:
			return x.(uint64) % y.(uint64)
		case uintptr:
			return x.(uintptr) % y.(uintptr)
		}

	case token.AND:
		switch x.(type) {
		case int:
			return x.(int) & y.(int)
		case int8:
			return x.(int8) & y.(int8)
		case int16:
			return x.(int16) & y.(int16)
		case int32:
			return x.(int32) & y.(int32)
		case int64:
			return x.(int64) & y.(int64)
		case uint:
			return x.(uint) & y.(uint)
		case uint8:
			return x.(uint8) & y.(uint8)
		case uint16:
			return x.(uint16) & y.(uint16)
		case uint32:
			return x.(uint32) & y.(uint32)
		case uint64:
			return x.(uint64) & y.(uint64)
		case uintptr:
			return x.(uintptr) & y.(uintptr)
		}

	case token.OR:
		switch x.(type) {
		case int:
			return x.(int) | y.(int)
		case int8:
			return x.(int8) | y.(int8)
		case int16:
			return x.(int16) | y.(int16)
		case int32:
			return x.(int32) | y.(int32)
		case int64:
			return x.(int64) | y.(int64)
		case uint:
			return x.(uint) | y.(uint)
		case uint8:
			return x.(uint8) | y.(uint8)
		case uint16:
			return x.(uint16) | y.(uint16)
		case uint32:
			return x.(uint32) | y.(uint32)
		case uint64:
			return x.(uint64) | y.(uint64)
		case uintptr:
			return x.(uintptr) | y.(uintptr)
		}

	case token.XOR:
		switch x.(type) {
		case int:
			return x.(int) ^ y.(int)
		case int8:
			return x.(int8) ^ y.(int8)
		case int16:
			return x.(int16) ^ y.(int16)
		case int32:
			return x.(int32) ^ y.(int32)
		case int64:
			return x.(int64) ^ y.(int64)
		case uint:
			return x.(uint) ^ y.(uint)
		case uint8:
			return x.(uint8) ^ y.(uint8)
		case uint16:
			return x.(uint16) ^ y.(uint16)
		case uint32:
			return x.(uint32) ^ y.(uint32)
		case uint64:
			return x.(uint64) ^ y.(uint64)
		case uintptr:
			return x.(uintptr) ^ y.(uintptr)
		}

	case token.AND_NOT:
		switch x.(type) {
		case int:
			return x.(int) &^ y.(int)
		case int8:
			return x.(int8) &^ y.(int8)
		case int16:
			return x.(int16) &^ y.(int16)
		case int32:
			return x.(int32) &^ y.(int32)
		case int64:
			return x.(int64) &^ y.(int64)
		case uint:
			return x.(uint) &^ y.(uint)
		case uint8:
			return x.(uint8) &^ y.(uint8)
		case uint16:
			return x.(uint16) &^ y.(uint16)
		case uint32:
			return x.(uint32) &^ y.(uint32)
		case uint64:
			return x.(uint64) &^ y.(uint64)
		case uintptr:
			return x.(uintptr) &^ y.(uintptr)
		}

	case token.SHL:
		u, ok := asUnsigned(y)
		if !ok {
			panic(runtimeErr("negative shift amount"))
		}
		y := asUint64(u)
		switch x.(type) {
		case int:
			return x.(int) << y
		case int8:
			return x.(int8) << y
		case int16:
			return x.(int16) << y
		case int32:
			return x.(int32) << y
		case int64:
			return x.(int64) << y
		case uint:
			return x.(uint) << y
		case uint8:
			return x.(uint8) << y
		case uint16:
			return x.(uint16) << y
		case uint32:
			return x.(uint32) << y
		case uint64:
			return x.(uint64) << y
		case uintptr:
			return x.(uintptr) << y
		}

	case token.SHR:
		u, ok := asUnsigned(y)
		if !ok {
			panic(runtimeErr("negative shift amount"))
		}
		y := asUint64(u)
		switch x.(type) {
		case int:
			return x.(int) >> y
		case int8:
			return x.(int8) >> y
		case int16:
			return x.(int16) >> y
		case int32:
			return x.(int32) >> y
		case int64:
			return x.(int64) >> y
		case uint:
			return x.(uint) >> y
		case uint8:
			return x.(uint8) >> y
		case uint16:
			return x.(uint16) >> y
		case uint32:
			return x.(uint32) >> y
		case uint64:
			return x.(uint64) >> y
		case uintptr:
			return x.(uintptr) >> y
		}

	case token.LSS:
		switch x.(type) {
		case int:
			return x.(int) < y.(int)
		case int8:
			return x.(int8) < y.(int8)
		case int16:
			return x.(int16) < y.(int16)
		case int32:
			return x.(int32) < y.(int32)
		case int64:
			return x.(int64) < y.(int64)
		case uint:
			return x.(uint) < y.(uint)
		case uint8:
			return x.(uint8) < y.(uint8)
		case uint16:
			return x.(uint16) < y.(uint16)
		case uint32:
			return x.(uint32) < y.(uint32)
		case uint64:
			return x.(uint64) < y.(uint64)
		case uintptr:
			return x.(uintptr) < y.(uintptr)
		case float32:
			return x.(float32) < y.(float32)
		case float64:
			return x.(float64) < y.(float64)
		case string:
			return x.(string) < y.(string)
		}

	case token.LEQ:
		switch x.(type) {
		case int:
			return x.(int) <= y.(int)
		case int8:
			return x.(int8) <= y.(int8)
		case int16:
			return x.(int16) <= y.(int16)
		case int32:
			return x.(int32) <= y.(int32)
		case int64:
			return x.(int64) <= y.(int64)
		case uint:
			return x.(uint) <= y.(uint)
		case uint8:
			return x.(uint8) <= y.(uint8)
		case uint16:
			return x.(uint16) <= y.(uint16)
		case uint32:
			return x.(uint32) <= y.(uint32)
		case uint64:
			return x.(uint64) <= y.(uint64)
		case uintptr:
			return x.(uintptr) <= y.(uintptr)
		case float32:
			return x.(float32) <= y.(float32)
		case float64:
			return x.(float64) <= y.(float64)
		case string:
			return x.(string) <= y.(string)
		}

	case token.EQL:
		return eqnil(t, x, y)

	case token.NEQ:
		return notV(eqnil(t, x, y))

	case token.GTR:
		switch x.(type) {
		case int:
			return x.(int) > y.(int)
		case int8:
			return x.(int8) > y.(int8)
		case int16:
			return x.(int16) > y.(int16)
		case int32:
			return x.(int32) > y.(int32)
		case int64:
			return x.(int64) > y.(int64)
		case uint:
			return x.(uint) > y.(uint)
		case uint8:
			return x.(uint8) > y.(uint8)
		case uint16:
			return x.(uint16) > y.(uint16)
		case uint32:
			return x.(uint32) > y.(uint32)
		case uint64:
			return x.(uint64) > y.(uint64)
		case uintptr:
			return x.(uintptr) > y.(uintptr)
		case float32:
			return x.(float32) > y.(float32)
		case float64:
			return x.(float64) > y.(float64)
		case string:
			return x.(string) > y.(string)
		}

	case token.GEQ:
		switch x.(type) {
		case int:
			return x.(int) >= y.(int)
		case int8:
			return x.(int8) >= y.(int8)
		case int16:
			return x.(int16) >= y.(int16)
		case int32:
			return x.(int32) >= y.(int32)
		case int64:
			return x.(int64) >= y.(int64)
		case uint:
			return x.(uint) >= y.(uint)
		case uint8:
			return x.(uint8) >= y.(uint8)
		case uint16:
			return x.(uint16) >= y.(uint16)
		case uint32:
			return x.(uint32) >= y.(uint32)
		case uint64:
			return x.(uint64) >= y.(uint64)
		case uintptr:
			return x.(uintptr) >= y.(uintptr)
		case float32:
			return x.(float32) >= y.(float32)
		case float64:
			return x.(float64) >= y.(float64)
		case string:
			return x.(string) >= y.(string)
		}
	}
	panic(fmt.Sprintf("invalid binary op: %T %s %T", x, op, y))
}

// eqnil returns the comparison x == y using the equivalence relation
// appropriate for type t (a bool, or a Bool term if symbolic parts are compared).
// If t is a reference type, at most one of x or y may be a nil value
// of that type.
func eqnil(t types.Type, x, y value) value {
	switch t.Underlying().(type) {
	case *types.Map, *types.Signature, *types.Slice:
		// Since these types don't support comparison,
		// one of the operands must be a literal nil.
		switch x := x.(type) {
		case *omap:
			return (x != nil) == (y.(*omap) != nil)
		case *ssa.Function:
			switch y := y.(type) {
			case *ssa.Function:
				return (x != nil) == (y != nil)
			case *closure:
				return true
			}
		case *closure:
			return (x != nil) == (y.(*ssa.Function) != nil)
		case []value:
			switch y := y.(type) {
			case []value:
				return (x != nil) == (y != nil)
			case *byteView:
				return (x != nil) == (y != nil)
			}
		case *byteView:
			switch y := y.(type) {
			case []value:
				return (x != nil) == (y != nil)
			case *byteView:
				return (x != nil) == (y != nil)
			}
		}
		panic(fmt.Sprintf("eqnil(%s): illegal dynamic type: %T", t, x))
	}

	return symEq(t, x, y)
}

func unop(instr *ssa.UnOp, x value) value {
	if t, ok := x.(*sym.Term); ok && instr.Op != token.MUL {
		return symUnop(instr.Op, instr.X.Type(), t)
	}
	switch instr.Op {
	case token.ARROW: // receive
		unsupported("channel receive")
	case token.SUB:
		switch x := x.(type) {
		case int:
			return -x
		case int8:
			return -x
		case int16:
			return -x
		case int32:
			return -x
		case int64:
			return -x
		case uint:
			return -x
		case uint8:
			return -x
		case uint16:
			return -x
		case uint32:
			return -x
		case uint64:
			return -x
		case uintptr:
			return -x
		case float32:
			return -x
		case float64:
			return -x
		case complex64:
			return -x
		case complex128:
			return -x
		}
	case token.MUL:
		p, ok := x.(*value)
		if !ok {
			return loadSpecial(x, mustDeref(instr.X.Type()))
		}
		if p == nil {
			panic(runtimeErr("invalid memory address or nil pointer dereference"))
		}
		return load(mustDeref(instr.X.Type()), p)
	case token.NOT:
		return !x.(bool)
	case token.XOR:
		switch x := x.(type) {
		case int:
			return ^x
		case int8:
			return ^x
		case int16:
			return ^x
		case int32:
			return ^x
		case int64:
			return ^x
		case uint:
			return ^x
		case uint8:
			return ^x
		case uint16:
			return ^x
		case uint32:
			return ^x
		case uint64:
			return ^x
		case uintptr:
			return ^x
		}
	}
	panic(fmt.Sprintf("invalid unary op %s %T", instr.Op, x))
}

// typeAssert checks whether dynamic type of itf is instr.AssertedType.
// It returns the extracted value on success, and panics on failure,
// unless instr.CommaOk, in which case it always returns a "value,ok" tuple.
func typeAssert(i *interpreter, instr *ssa.TypeAssert, itf iface) value {
	var v value
	err := ""
	if itf.t == nil {
		err = fmt.Sprintf("interface conversion: interface is nil, not %s", instr.AssertedType)

	} else if idst, ok := instr.AssertedType.Underlying().(*types.Interface); ok {
		v = itf
		err = checkInterface(i, idst, itf)

	} else if types.Identical(itf.t, instr.AssertedType) {
		v = itf.v // extract value

	} else {
		err = fmt.Sprintf("interface conversion: interface is %s, not %s", itf.t, instr.AssertedType)
	}
	// Note: if instr.Underlying==true ever becomes reachable from interp check that
	// types.Identical(itf.t.Underlying(), instr.AssertedType)

	if err != "" {
		if !instr.CommaOk {
			panic(err)
		}
		return tuple{zero(instr.AssertedType), false}
	}
	if instr.CommaOk {
		return tuple{v, true}
	}
	return v
}

// This variable is no longer used but remains to prevent build breakage.
var CapturedOutput *bytes.Buffer

// callBuiltin interprets a call to builtin fn with arguments args,
// returning its result.
func callBuiltin(caller *frame, callpos token.Pos, fn *ssa.Builtin, args []value) value {
	i := caller.i
	switch fn.Name() {
	case "append":
		if len(args) == 1 {
			return args[0]
		}
		dst := toValues(i, args[0])
		var src []value
		if isStringLike(args[1]) {
			// append([]byte, ...string) []byte
			src = strBytes(args[1])
		} else {
			src = toValues(i, args[1])
		}
		if len(src) == 0 {
			return args[0]
		}
		return i.appendValues(dst, src, fn)

	case "copy": // copy([]T, []T) int or copy([]byte, string) int
		var src []value
		if isStringLike(args[1]) {
			src = strBytes(args[1])
		} else if bv, ok := args[1].(*byteView); ok {
			src = bv.readAll(i)
		} else {
			src = args[1].([]value)
		}
		if bv, ok := args[0].(*byteView); ok {
			return bv.copyIn(i, src)
		}
		dst := args[0].([]value)
		n := len(dst)
		if len(src) < n {
			n = len(src)
		}
		if n > 0 && len(src) > 0 && len(dst) > 0 && &src[0] != &dst[0] {
			// handle overlap like memmove
			tmp := make([]value, n)
			copy(tmp, src[:n])
			src = tmp
		}
		for k := 0; k < n; k++ {
			i.set(&dst[k], src[k])
		}
		return n

	case "close": // close(chan T)
		unsupported("close(chan)")
		return nil

	case "delete": // delete(map[K]value, K)
		args[0].(*omap).delete(i, args[1])
		return nil

	case "clear":
		switch x := args[0].(type) {
		case *omap:
			if x != nil {
				for _, e := range x.entries {
					if e.alive {
						x.delete(i, e.key)
					}
				}
			}
		case []value:
			elem := fn.Type().(*types.Signature).Params().At(0).Type().Underlying().(*types.Slice).Elem()
			for k := range x {
				i.store(elem, &x[k], zero(elem))
			}
		default:
			panic(fmt.Sprintf("clear: illegal operand: %T", x))
		}
		return nil

	case "print", "println": // print(any, ...)
		ln := fn.Name() == "println"
		var buf bytes.Buffer
		for i, arg := range args {
			if i > 0 && ln {
				buf.WriteRune(' ')
			}
			buf.WriteString(toString(arg))
		}
		if ln {
			buf.WriteRune('\n')
		}
		os.Stderr.Write(buf.Bytes())
		return nil

	case "len":
		switch x := args[0].(type) {
		case string:
			return len(x)
		case sstr:
			return len(x)
		case array:
			return len(x)
		case *value:
			return len((*x).(array))
		case []value:
			return len(x)
		case *omap:
			return x.len()
		case *byteView:
			return x.length()
		default:
			panic(fmt.Sprintf("len: illegal operand: %T", x))
		}

	case "cap":
		switch x := args[0].(type) {
		case array:
			return cap(x)
		case *value:
			return cap((*x).(array))
		case []value:
			return cap(x)
		case *byteView:
			return x.length()
		default:
			panic(fmt.Sprintf("cap: illegal operand: %T", x))
		}

	case "min", "max":
		t := fn.Type().(*types.Signature).Params().At(0).Type()
		x := args[0]
		for _, y := range args[1:] {
			if isSym(x) || isSym(y) {
				if b := basicOf(t); b != nil && isFloatKind(b.Kind()) {
					unsupported("min/max on symbolic floats")
				}
				var c value
				if fn.Name() == "min" {
					c = binop2(token.LSS, t, t, y, x)
				} else {
					c = binop2(token.GTR, t, t, y, x)
				}
				if decide(c) {
					x = y
				}
				continue
			}
			if fn.Name() == "min" {
				x = min(x, y)
			} else {
				x = max(x, y)
			}
		}
		return x

	case "real", "imag", "complex":
		unsupported("complex numbers")

	case "panic":
		// ssa.Panic handles most cases; this is only for "go
		// panic" or "defer panic".
		panic(targetPanic{args[0]})

	case "recover":
		return doRecover(caller)

	case "ssa:wrapnilchk":
		recv := args[0]
		if p, ok := recv.(*value); ok && p == nil {
			recvType := args[1]
			methodName := args[2]
			panic(runtimeErr(fmt.Sprintf("value method (%s).%s called using nil *%s pointer",
				recvType, methodName, recvType)))
		}
		return recv

	case "ssa:deferstack":
		return &caller.defers
	}

	panic("unknown built-in: " + fn.Name())
}

func isZeroInt(v value) bool {
	switch v := v.(type) {
	case int:
		return v == 0
	case int8:
		return v == 0
	case int16:
		return v == 0
	case int32:
		return v == 0
	case int64:
		return v == 0
	case uint:
		return v == 0
	case uint8:
		return v == 0
	case uint16:
		return v == 0
	case uint32:
		return v == 0
	case uint64:
		return v == 0
	case uintptr:
		return v == 0
	}
	return false
}

// toValues views a slice operand as []value.
func toValues(i *interpreter, v value) []value {
	switch v := v.(type) {
	case []value:
		return v
	case *byteView:
		return v.readAll(i)
	}
	panic(fmt.Sprintf("toValues: %T", v))
}

// appendValues implements append with Go's in-place semantics when capacity
// allows (writes beyond len are logged on the undo trail).
func (i *interpreter) appendValues(dst, src []value, fn *ssa.Builtin) value {
	n := len(dst) + len(src)
	if n <= cap(dst) {
		r := dst[:n]
		for k, v := range src {
			i.set(&r[len(dst)+k], v)
		}
		return r
	}
	var elem types.Type
	if sl, ok := fn.Type().(*types.Signature).Results().At(0).Type().Underlying().(*types.Slice); ok {
		elem = sl.Elem()
	}
	i.chargeAlloc(uint64(len(src)), elem)
	ncap := i.growCap(cap(dst), n, elem)
	r := make([]value, n, ncap)
	copy(r, dst)
	copy(r[len(dst):], src)
	if elem != nil {
		z := r[n:ncap]
		for k := range z {
			z[k] = zero(elem)
		}
	}
	return r
}

func rangeIter(i *interpreter, x value, t types.Type) iter {
	switch x := x.(type) {
	case *omap:
		return &omapIter{m: x}
	case string:
		return &sstrIter{i: i, s: strToValues(x)}
	case sstr:
		return &sstrIter{i: i, s: []value(x)}
	}
	panic(fmt.Sprintf("cannot range over %T", x))
}

// widen widens a basic typed value x to the widest type of its
// category, one of:
//
//	bool, int64, uint64, float64, complex128, string.
//
// This is inefficient but reduces the size of the cross-product of
// cases we have to consider.
func widen(x value) value {
	switch y := x.(type) {
	case bool, int64, uint64, float64, complex128, string, unsafe.Pointer:
		return x
	case int:
		return int64(y)
	case int8:
		return int64(y)
	case int16:
		return int64(y)
	case int32:
		return int64(y)
	case uint:
		return uint64(y)
	case uint8:
		return uint64(y)
	case uint16:
		return uint64(y)
	case uint32:
		return uint64(y)
	case uintptr:
		return uint64(y)
	case float32:
		return float64(y)
	case complex64:
		return complex128(y)
	}
	panic(fmt.Sprintf("cannot widen %T", x))
}

// conv converts the value x of type t_src to type t_dst and returns
// the result.
// Possible cases are described with the ssa.Convert operator.
func conv(i *interpreter, t_dst, t_src types.Type, x value) value {
	ut_src := t_src.Underlying()
	ut_dst := t_dst.Underlying()

	// Destination type is not an "untyped" type.
	if b, ok := ut_dst.(*types.Basic); ok && b.Info()&types.IsUntyped != 0 {
		panic("oops: conversion to 'untyped' type: " + b.String())
	}

	// Nor is it an interface type.
	if _, ok := ut_dst.(*types.Interface); ok {
		if _, ok := ut_src.(*types.Interface); ok {
			panic("oops: Convert should be ChangeInterface")
		} else {
			panic("oops: Convert should be MakeInterface")
		}
	}

	// Remaining conversions:
	//    + untyped string/number/bool constant to a specific
	//      representation.
	//    + conversions between non-complex numeric types.
	//    + conversions between complex numeric types.
	//    + integer/[]byte/[]rune -> string.
	//    + string -> []byte/[]rune.
	//
	// All are treated the same: first we extract the value to the
	// widest representation (int64, uint64, float64, complex128,
	// or string), then we convert it to the desired type.

	switch ut_src := ut_src.(type) {
	case *types.Pointer:
		switch ut_dst := ut_dst.(type) {
		case *types.Basic:
			// *T to unsafe.Pointer
			if ut_dst.Kind() == types.UnsafePointer {
				return toUnsafePointer(i, x, ut_src.Elem())
			}
		}

	case *types.Slice:
		// []byte or []rune -> string
		switch ut_src.Elem().Underlying().(*types.Basic).Kind() {
		case types.Byte:
			return mkstr(toValues(i, x))

		case types.Rune:
			x := x.([]value)
			var out []value
			for k := range x {
				if r, ok := x[k].(rune); ok {
					out = append(out, strToValues(string(r))...)
				} else {
					out = append(out, i.encodeRune(x[k])...)
				}
			}
			return mkstr(out)
		}

	case *types.Basic:
		if ut_src.Kind() == types.UnsafePointer {
			return fromUnsafePointer(i, x, t_dst)
		}
		if t, ok := x.(*sym.Term); ok {
			if bd, ok := ut_dst.(*types.Basic); ok {
				if bd.Kind() == types.String {
					return mkstr(i.encodeRune(conv(i, types.Typ[types.Rune], t_src, x)))
				}
				return symConv(bd, ut_src, t)
			}
			unsupported("conversion of symbolic %s to %s", t_src, t_dst)
		}
		if ss, ok := x.(sstr); ok {
			switch ut_dst := ut_dst.(type) {
			case *types.Slice:
				switch ut_dst.Elem().Underlying().(*types.Basic).Kind() {
				case types.Byte:
					res := make([]value, len(ss))
					copy(res, ss)
					return res
				case types.Rune:
					var res []value
					it := &sstrIter{i: i, s: []value(ss)}
					for {
						tu := it.next()
						if !tu[0].(bool) {
							break
						}
						res = append(res, tu[2])
					}
					return res
				}
			case *types.Basic:
				if ut_dst.Kind() == types.String {
					return ss
				}
			}
			unsupported("conversion of symbolic string to %s", t_dst)
		}
		x = widen(x)

		// integer -> string?
		if ut_src.Info()&types.IsInteger != 0 {
			if ut_dst, ok := ut_dst.(*types.Basic); ok && ut_dst.Kind() == types.String {
				return fmt.Sprintf("%c", x)
			}
		}

		// string -> []rune, []byte or string?
		if s, ok := x.(string); ok {
			switch ut_dst := ut_dst.(type) {
			case *types.Slice:
				var res []value
				switch ut_dst.Elem().Underlying().(*types.Basic).Kind() {
				case types.Rune:
					for _, r := range []rune(s) {
						res = append(res, r)
					}
					return res
				case types.Byte:
					for _, b := range []byte(s) {
						res = append(res, b)
					}
					return res
				}
			case *types.Basic:
				if ut_dst.Kind() == types.String {
					return x.(string)
				}
			}
			break // fail: no other conversions for string
		}

		// Conversions between complex numeric types?
		if ut_src.Info()&types.IsComplex != 0 {
			switch ut_dst.(*types.Basic).Kind() {
			case types.Complex64:
				return complex64(x.(complex128))
			case types.Complex128:
				return x.(complex128)
			}
			break // fail: no other conversions for complex
		}

		// Conversions between non-complex numeric types?
		if ut_src.Info()&types.IsNumeric != 0 {
			kind := ut_dst.(*types.Basic).Kind()
			switch x := x.(type) {
			case int64: // signed integer -> numeric?
				switch kind {
				case types.Int:
					return int(x)
				case types.Int8:
					return int8(x)
				case types.Int16:
					return int16(x)
				case types.Int32:
					return int32(x)
				case types.Int64:
					return int64(x)
				case types.Uint:
					return uint(x)
				case types.Uint8:
					return uint8(x)
				case types.Uint16:
					return uint16(x)
				case types.Uint32:
					return uint32(x)
				case types.Uint64:
					return uint64(x)
				case types.Uintptr:
					return uintptr(x)
				case types.Float32:
					return float32(x)
				case types.Float64:
					return float64(x)
				}

			case uint64: // unsigned integer -> numeric?
				switch kind {
				case types.Int:
					return int(x)
				case types.Int8:
					return int8(x)
				case types.Int16:
					return int16(x)
				case types.Int32:
					return int32(x)
				case types.Int64:
					return int64(x)
				case types.Uint:
					return uint(x)
				case types.Uint8:
					return uint8(x)
				case types.Uint16:
					return uint16(x)
				case types.Uint32:
					return uint32(x)
				case types.Uint64:
					return uint64(x)
				case types.Uintptr:
					return uintptr(x)
				case types.Float32:
					return float32(x)
				case types.Float64:
					return float64(x)
				}

			case float64: // floating point -> numeric?
				switch kind {
				case types.Int:
					return int(x)
				case types.Int8:
					return int8(x)
				case types.Int16:
					return int16(x)
				case types.Int32:
					return int32(x)
				case types.Int64:
					return int64(x)
				case types.Uint:
					return uint(x)
				case types.Uint8:
					return uint8(x)
				case types.Uint16:
					return uint16(x)
				case types.Uint32:
					return uint32(x)
				case types.Uint64:
					return uint64(x)
				case types.Uintptr:
					return uintptr(x)
				case types.Float32:
					return float32(x)
				case types.Float64:
					return float64(x)
				}
			}
		}
	}

	panic(fmt.Sprintf("unsupported conversion: %s  -> %s, dynamic type %T", t_src, t_dst, x))
}

// sliceToArrayPointer converts the value x of type slice to type t_dst
// a pointer to array and returns the result.
func sliceToArrayPointer(t_dst, t_src types.Type, x value) value {
	if _, ok := t_src.Underlying().(*types.Slice); ok {
		if ptr, ok := t_dst.Underlying().(*types.Pointer); ok {
			if arr, ok := ptr.Elem().Underlying().(*types.Array); ok {
				x := x.([]value)
				if arr.Len() > int64(len(x)) {
					panic("array length is greater than slice length")
				}
				if x == nil {
					return zero(t_dst)
				}
				v := value(array(x[:arr.Len()]))
				return &v
			}
		}
	}

	panic(fmt.Sprintf("unsupported conversion: %s  -> %s, dynamic type %T", t_src, t_dst, x))
}

// checkInterface checks that the method set of x implements the
// interface itype.
// On success it returns "", on failure, an error message.
func checkInterface(i *interpreter, itype *types.Interface, x iface) string {
	if meth, _ := types.MissingMethod(x.t, itype, true); meth != nil {
		return fmt.Sprintf("interface conversion: %v is not %v: missing method %s",
			x.t, itype, meth.Name())
	}
	return "" // ok
}

func foldLeft(op func(value, value) value, args []value) value {
	x := args[0]
	for _, arg := range args[1:] {
		x = op(x, arg)
	}
	return x
}

func min(x, y value) value {
	switch x := x.(type) {
	case float32:
		return fmin(x, y.(float32))
	case float64:
		return fmin(x, y.(float64))
	}

	// return (y < x) ? y : x
	if binop(token.LSS, nil, y, x).(bool) {
		return y
	}
	return x
}

func max(x, y value) value {
	switch x := x.(type) {
	case float32:
		return fmax(x, y.(float32))
	case float64:
		return fmax(x, y.(float64))
	}

	// return (y > x) ? y : x
	if binop(token.GTR, nil, y, x).(bool) {
		return y
	}
	return x
}

// copied from $GOROOT/src/runtime/minmax.go

type floaty interface{ ~float32 | ~float64 }

func fmin[F floaty](x, y F) F {
	if y != y || y < x {
		return y
	}
	if x != x || x < y || x != 0 {
		return x
	}
	// x and y are both ±0
	// if either is -0, return -0; else return +0
	return forbits(x, y)
}

func fmax[F floaty](x, y F) F {
	if y != y || y > x {
		return y
	}
	if x != x || x > y || x != 0 {
		return x
	}
	// x and y are both ±0
	// if both are -0, return -0; else return +0
	return fandbits(x, y)
}

func forbits[F floaty](x, y F) F {
	switch unsafe.Sizeof(x) {
	case 4:
		*(*uint32)(unsafe.Pointer(&x)) |= *(*uint32)(unsafe.Pointer(&y))
	case 8:
		*(*uint64)(unsafe.Pointer(&x)) |= *(*uint64)(unsafe.Pointer(&y))
	}
	return x
}

func fandbits[F floaty](x, y F) F {
	switch unsafe.Sizeof(x) {
	case 4:
		*(*uint32)(unsafe.Pointer(&x)) &= *(*uint32)(unsafe.Pointer(&y))
	case 8:
		*(*uint64)(unsafe.Pointer(&x)) &= *(*uint64)(unsafe.Pointer(&y))
	}
	return x
}

// ---- slice growth as the Go runtime does it (runtime.growslice, go1.23) -------
// Aliasing after append depends on the capacity append leaves behind, so the
// engine reproduces the runtime's policy: doubling below 256 elements, 1.25x
// + 192 above, then rounding the byte size up to the allocator's size class.

var goSizeClasses = []uint64{0, 8, 16, 24, 32, 48, 64, 80, 96, 112, 128, 144, 160, 176, 192, 208, 224, 240, 256, 288, 320, 352, 384, 416, 448, 480, 512, 576, 640, 704, 768, 896, 1024, 1152, 1280, 1408, 1536, 1792, 2048, 2304, 2688, 3072, 3200, 3456, 4096, 4864, 5376, 6144, 6528, 6784, 6912, 8192, 9472, 9728, 10240, 10880, 12288, 13568, 14336, 16384, 18432, 19072, 20480, 21760, 24576, 27264, 28672, 32768}

func goClassSize(n uint64) uint64 {
	for _, c := range goSizeClasses {
		if c >= n {
			return c
		}
	}
	return n
}

func goRoundupsize(size uint64, noscan bool) uint64 {
	if size <= 32768-8 {
		if !noscan && size > 512 {
			return goClassSize(size+8) - 8
		}
		return goClassSize(size)
	}
	return (size + 8191) &^ 8191
}

func typeHasPointers(t types.Type) bool {
	switch u := t.Underlying().(type) {
	case *types.Basic:
		return u.Info()&types.IsString != 0 || u.Kind() == types.UnsafePointer
	case *types.Struct:
		for k := 0; k < u.NumFields(); k++ {
			if typeHasPointers(u.Field(k).Type()) {
				return true
			}
		}
		return false
	case *types.Array:
		return u.Len() > 0 && typeHasPointers(u.Elem())
	}
	return true
}

func (i *interpreter) growCap(oldCap, newLen int, elem types.Type) int {
	newcap := oldCap
	if double := oldCap + oldCap; newLen > double {
		newcap = newLen
	} else if oldCap < 256 {
		newcap = double
	} else {
		for newcap < newLen {
			newcap += (newcap + 3*256) >> 2
		}
	}
	esz, noscan := uint64(8), true
	if elem != nil {
		esz = uint64(i.sizes.Sizeof(elem))
		noscan = !typeHasPointers(elem)
	}
	if esz == 0 {
		return newcap
	}
	c := int(goRoundupsize(uint64(newcap)*esz, noscan) / esz)
	if c < newLen {
		c = newLen
	}
	return c
}
