package interp

// Path exploration: decision prefixes, the branch oracle (SMT solver),
// concretisation, obligations and budgets.

import (
	"fmt"
	"os"
	"sort"
	"strings"
	"sync/atomic"
	"time"

	"verif/engine/solver"
	"verif/engine/sym"
)

// Dec is one recorded decision on a path.
type Dec struct {
	K   byte   // 'b' branch, 'c' choice, 'v' concretised value
	N   uint64 // branch: 0/1; choice: index; value: the value
	Alt bool   // true if the other alternatives were feasible (informational)
}

// abort is the panic value used for engine-level path termination. It is
// never visible to the interpreted program's recover().
type abort struct {
	kind string // "assume", "unsupported", "budget", "fatal", "done"
	msg  string
}

func (a abort) Error() string { return a.kind + ": " + a.msg }

// Violation is a failed obligation together with a model.
type Violation struct {
	Entry   string
	Kind    string // "assert", "panic", "fatal"
	Msg     string
	Model   map[string]uint64
	Decs    []Dec
	Known   string // id of the known-finding region it falls in ("" = new)
	PathNo  int
	Confirm string // filled by replay
}

// PathResult summarises one explored path.
type PathResult struct {
	Outcome string // "return", "panic", "assume-pruned", "unsupported", "budget", "fatal"
	Msg     string
	Steps   int
	Decs    int
}

type knownRegion struct {
	id   string
	cond value // bool or *sym.Term
}

// pathState is the per-path execution context; reachable from terms via
// sym.Ctx.User.
type pathState struct {
	i      *interpreter
	cx     *sym.Ctx
	prefix []Dec
	pos    int
	decs   []Dec
	pc     []*sym.Term
	// solver
	slv     *solver.Solver
	pr      *sym.Printer
	pushed  bool
	flushed int
	// inputs
	names    map[string]int    // name -> times used
	inputs   []string          // input variable names in creation order
	concrete map[string]uint64 // choices etc. recorded concretely (also part of the replay vector)
	reached  map[string]bool
	known    []knownRegion
	// budgets / ghost state
	steps      int
	hangBudget int // steps after which "does not return" is reported (0 = off)
	allocBytes uint64
	// results
	violations []*Violation
	obligs     int // symbolic obligations discharged (solver)
	obligsConc int // obligations that were concrete
	pending    [][]Dec
	samples    []string
	script     strings.Builder // path-level declarations, definitions and assertions
}

func (ps *pathState) fail(kind, format string, args ...interface{}) {
	panic(abort{kind, fmt.Sprintf(format, args...)})
}

func unsupported(format string, args ...interface{}) {
	panic(abort{"unsupported", fmt.Sprintf(format, args...)})
}

// psOf finds the path state from any symbolic value.
func psOf(t *sym.Term) *pathState { return t.C.User.(*pathState) }

// ---- solver plumbing ------------------------------------------------------

func (ps *pathState) ensure() {
	if ps.slv.Lost {
		ps.slv.Lost = false
		if ps.pushed {
			// the solver process was killed (hard time limit) and restarted
			// mid-path: rebuild its state from the path-level script
			ps.slv.Send("(push)\n" + ps.script.String())
		}
	}
	if !ps.pushed {
		ps.slv.ResetTranscript()
		ps.slv.Send("(push)\n")
		ps.pr.Push()
		ps.pushed = true
		ps.script.Reset()
	}
	for ps.flushed < len(ps.pc) {
		r := ps.pr.Ref(ps.pc[ps.flushed])
		ps.sendPathLevel(ps.pr.Take() + "(assert " + r + ")\n")
		ps.flushed++
	}
}

// sendPathLevel sends declarations/definitions/assertions that stay for the
// rest of the path and keeps them as a stand-alone script for the fallback
// solvers.
func (ps *pathState) sendPathLevel(text string) {
	if text == "" {
		return
	}
	ps.script.WriteString(text)
	ps.slv.Send(text)
}

// secondOpinion re-runs one query stand-alone (fresh process, no incremental
// state) on the other installed solvers. Used when the primary solver answers
// unknown/timeout, and in the thorough tier to cross-check unsat verdicts.
func (ps *pathState) secondOpinion(refs []string, kinds ...solver.Kind) solver.Result {
	var sb strings.Builder
	sb.WriteString(ps.script.String())
	for _, r := range refs {
		sb.WriteString("(assert " + r + ")\n")
	}
	sb.WriteString("(check-sat)\n")
	for _, k := range kinds {
		res, err := solver.OneShot(k, sb.String(), ps.i.cfg.SolverTimeout*2)
		ps.i.stats.SolverQueries++
		atomic.AddInt64(&FallbackQueries, 1)
		if err == nil && res != solver.Unknown {
			return res
		}
	}
	return solver.Unknown
}

// FallbackQueries counts stand-alone queries sent to the secondary solvers.
var FallbackQueries int64

// CrossCheck makes every unsat obligation verdict be confirmed by a second solver.
var CrossCheck bool

func (ps *pathState) finishSolver() {
	if ps.pushed {
		if !ps.slv.Lost {
			ps.slv.Send("(pop)\n")
		}
		ps.slv.Lost = false
		ps.pr.Pop()
		ps.pushed = false
	}
}

// check asks whether pc ∧ extra... is satisfiable.
func (ps *pathState) check(extra ...*sym.Term) solver.Result {
	for _, e := range extra {
		if e.IsConst() && e.Val == 0 {
			return solver.Unsat
		}
	}
	ps.ensure()
	var refs []string
	for _, e := range extra {
		refs = append(refs, ps.pr.Ref(e))
	}
	ps.sendPathLevel(ps.pr.Take())
	var sb strings.Builder
	sb.WriteString("(push)\n")
	for _, r := range refs {
		sb.WriteString("(assert " + r + ")\n")
	}
	res := ps.slv.Check(sb.String())
	ps.i.stats.SolverQueries++
	lost := ps.slv.Lost
	if !lost {
		ps.slv.Send("(pop)\n")
	}
	if res == solver.Unknown {
		ps.dumpUnknown()
		// stand-alone retry on the other solvers (cvc5 first: it bit-blasts
		// multiplication/shift chains that stall z3's incremental core)
		if r2 := ps.secondOpinion(refs, solver.CVC5, solver.Z3); r2 != solver.Unknown {
			res = r2
		} else {
			ps.i.stats.SolverUnknown++
			ps.i.lastUnknown = ps.slv.LastError
		}
	}
	return res
}

// checkObligation is check() for a final obligation: in cross-check mode an
// unsat verdict must be confirmed by a second solver.
func (ps *pathState) checkObligation(neg *sym.Term) solver.Result {
	res := ps.check(neg)
	if res == solver.Unsat && CrossCheck && !neg.IsConst() {
		ref := ps.pr.Ref(neg)
		ps.sendPathLevel(ps.pr.Take())
		r2 := ps.secondOpinion([]string{ref}, solver.CVC5)
		if r2 == solver.Sat {
			ps.i.lastUnknown = "solvers disagree: z3 unsat, cvc5 sat"
			return solver.Unknown
		}
		if r2 == solver.Unsat {
			atomic.AddInt64(&CrossChecked, 1)
		}
	}
	return res
}

// CrossChecked counts obligations whose unsat verdict was confirmed by cvc5.
var CrossChecked int64

var dumpSeq int32

// dumpUnknown writes the stand-alone script of the query that just came back
// unknown when GOSYM_DUMP is set.
func (ps *pathState) dumpUnknown() {
	dir := os.Getenv("GOSYM_DUMP")
	if dir == "" || !ps.slv.KeepScript {
		return
	}
	n := atomic.AddInt32(&dumpSeq, 1)
	os.MkdirAll(dir, 0o755)
	os.WriteFile(fmt.Sprintf("%s/unknown_%d.smt2", dir, n), []byte(ps.slv.Transcript.String()), 0o644)
	os.WriteFile(fmt.Sprintf("%s/unknown_%d.stack", dir, n), []byte(ps.i.stackString()), 0o644)
}

// checkModel is like check but on Sat also returns a model for all inputs.
func (ps *pathState) checkModel(extra ...*sym.Term) (solver.Result, map[string]uint64) {
	ps.ensure()
	var refs []string
	for _, e := range extra {
		refs = append(refs, ps.pr.Ref(e))
	}
	// make sure all inputs are declared so that get-value works
	for _, v := range ps.cx.Vars {
		ps.pr.Ref(v)
	}
	ps.sendPathLevel(ps.pr.Take())
	var sb strings.Builder
	sb.WriteString("(push)\n")
	for _, r := range refs {
		sb.WriteString("(assert " + r + ")\n")
	}
	res := ps.slv.Check(sb.String())
	ps.i.stats.SolverQueries++
	var model map[string]uint64
	if res == solver.Sat {
		model = map[string]uint64{}
		var exprs []string
		for _, v := range ps.cx.Vars {
			exprs = append(exprs, sym.SMTName(v.Name))
		}
		vals, err := ps.slv.GetValues(exprs)
		if err != nil {
			ps.i.lastUnknown = err.Error()
			res = solver.Unknown
			ps.i.stats.SolverUnknown++
		} else {
			for _, v := range ps.cx.Vars {
				model[v.Name] = vals[sym.SMTName(v.Name)]
			}
		}
	} else if res == solver.Unknown {
		ps.i.stats.SolverUnknown++
		ps.i.lastUnknown = ps.slv.LastError
	}
	ps.slv.Send("(pop)\n")
	return res, model
}

// valueOf returns a feasible concrete value of t under pc ∧ extra.
func (ps *pathState) valueOf(t *sym.Term, extra ...*sym.Term) (solver.Result, uint64) {
	ps.ensure()
	ref := ps.pr.Ref(t)
	var refs []string
	for _, e := range extra {
		refs = append(refs, ps.pr.Ref(e))
	}
	ps.sendPathLevel(ps.pr.Take())
	var sb strings.Builder
	sb.WriteString("(push)\n")
	for _, r := range refs {
		sb.WriteString("(assert " + r + ")\n")
	}
	res := ps.slv.Check(sb.String())
	ps.i.stats.SolverQueries++
	var val uint64
	if res == solver.Sat {
		vals, err := ps.slv.GetValues([]string{ref})
		if err != nil {
			res = solver.Unknown
			ps.i.lastUnknown = err.Error()
		} else {
			val = vals[ref]
		}
	}
	if res == solver.Unknown {
		ps.i.stats.SolverUnknown++
	}
	ps.slv.Send("(pop)\n")
	return res, val
}

// ---- decisions -------------------------------------------------------------

func (ps *pathState) addPC(t *sym.Term) {
	if t.IsConst() {
		if t.Val == 0 {
			ps.fail("assume", "path condition became false")
		}
		return
	}
	ps.pc = append(ps.pc, t)
}

func (ps *pathState) record(d Dec) {
	ps.decs = append(ps.decs, d)
	if len(ps.decs) > ps.i.cfg.MaxDecisions {
		ps.fail("budget", "decision budget %d exhausted", ps.i.cfg.MaxDecisions)
	}
}

func (ps *pathState) queue(alt Dec) {
	p := make([]Dec, len(ps.decs)+1)
	copy(p, ps.decs)
	p[len(ps.decs)] = alt
	ps.pending = append(ps.pending, p)
}

// branch decides a symbolic condition, forking if both sides are feasible.
func (ps *pathState) branch(c *sym.Term) bool {
	if c.IsConst() {
		return c.Val != 0
	}
	if ps.i.inInit > 0 {
		unsupported("symbolic branch during package initialisation")
	}
	if ps.pos < len(ps.prefix) {
		d := ps.prefix[ps.pos]
		ps.pos++
		if d.K != 'b' {
			ps.fail("unsupported", "decision prefix out of sync: want branch, have %c", d.K)
		}
		ps.decs = append(ps.decs, d)
		if d.N == 1 {
			ps.addPC(c)
			return true
		}
		ps.addPC(ps.cx.Not(c))
		return false
	}
	nc := ps.cx.Not(c)
	rt := ps.check(c)
	var rf solver.Result
	if rt == solver.Unsat {
		rf = solver.Sat // pc is satisfiable by invariant
	} else {
		rf = ps.check(nc)
	}
	tOK, fOK := rt != solver.Unsat, rf != solver.Unsat
	switch {
	case tOK && fOK:
		ps.queue(Dec{K: 'b', N: 0})
		ps.record(Dec{K: 'b', N: 1, Alt: true})
		ps.addPC(c)
		return true
	case tOK:
		ps.record(Dec{K: 'b', N: 1})
		ps.addPC(c)
		return true
	case fOK:
		ps.record(Dec{K: 'b', N: 0})
		ps.addPC(nc)
		return false
	}
	ps.fail("assume", "both branch sides infeasible (pc unsatisfiable)")
	return false
}

// choice forks n ways without consulting the solver (harness-level selector).
func (ps *pathState) choice(n int) int {
	if n <= 0 {
		ps.fail("assume", "Choice(0)")
	}
	if ps.pos < len(ps.prefix) {
		d := ps.prefix[ps.pos]
		ps.pos++
		if d.K != 'c' {
			ps.fail("unsupported", "decision prefix out of sync: want choice, have %c", d.K)
		}
		ps.decs = append(ps.decs, d)
		return int(d.N)
	}
	for k := n - 1; k >= 1; k-- {
		ps.queue(Dec{K: 'c', N: uint64(k)})
	}
	ps.record(Dec{K: 'c', N: 0, Alt: n > 1})
	return 0
}

// concretize forks once per feasible value of t (up to the cap).
func (ps *pathState) concretize(t *sym.Term, what string) uint64 {
	if t.IsConst() {
		return t.Val
	}
	if ps.i.inInit > 0 {
		unsupported("symbolic value during package initialisation")
	}
	if ps.pos < len(ps.prefix) {
		d := ps.prefix[ps.pos]
		ps.pos++
		if d.K != 'v' {
			ps.fail("unsupported", "decision prefix out of sync: want value, have %c", d.K)
		}
		ps.decs = append(ps.decs, d)
		ps.addPC(ps.cx.Eq(t, ps.cx.Const(t.W, d.N)))
		return d.N
	}
	cap := ps.i.cfg.ConcretizeCap
	var vals []uint64
	var excl []*sym.Term
	for {
		res, v := ps.valueOf(t, excl...)
		for retry := 0; res == solver.Unknown && retry < 3; retry++ {
			// usually a timeout under load (or a solver that had to be
			// restarted): the query is cheap, ask again
			res, v = ps.valueOf(t, excl...)
		}
		if res == solver.Unsat {
			break
		}
		if res == solver.Unknown {
			ps.fail("budget", "solver unknown while concretising %s", what)
		}
		vals = append(vals, v)
		if len(vals) > cap {
			ps.fail("budget", "concretisation cap %d exceeded for %s\n%s", cap, what, ps.i.stackString())
		}
		excl = append(excl, ps.cx.Not(ps.cx.Eq(t, ps.cx.Const(t.W, v))))
	}
	if len(vals) == 0 {
		ps.fail("assume", "no feasible value for %s", what)
	}
	sort.Slice(vals, func(a, b int) bool { return vals[a] < vals[b] })
	for _, v := range vals[1:] {
		ps.queue(Dec{K: 'v', N: v})
	}
	ps.record(Dec{K: 'v', N: vals[0], Alt: len(vals) > 1})
	ps.addPC(ps.cx.Eq(t, ps.cx.Const(t.W, vals[0])))
	return vals[0]
}

// ---- inputs ----------------------------------------------------------------

func (ps *pathState) uniqueName(name string) string {
	n := ps.names[name]
	ps.names[name] = n + 1
	if n > 0 {
		name = fmt.Sprintf("%s#%d", name, n)
	}
	return name
}

func (ps *pathState) newInput(name string, w int) *sym.Term {
	name = ps.uniqueName(name)
	ps.inputs = append(ps.inputs, name)
	return ps.cx.Var(name, w)
}

// ---- obligations -------------------------------------------------------------

func (ps *pathState) knownTerms() []*sym.Term {
	var ts []*sym.Term
	for _, k := range ps.known {
		ts = append(ts, ps.asBoolTerm(k.cond))
	}
	return ts
}

func (ps *pathState) asBoolTerm(v value) *sym.Term {
	switch v := v.(type) {
	case bool:
		return ps.cx.Bool(v)
	case *sym.Term:
		return v
	}
	panic(fmt.Sprintf("asBoolTerm: %T", v))
}

// violated records violations of an obligation whose negation is neg
// (pc ∧ neg satisfiable means violated). It partitions by known regions.
// Returns true if any violation exists.
func (ps *pathState) violated(kind, msg string, neg *sym.Term) bool {
	res := ps.checkObligation(neg)
	if res == solver.Unsat {
		return false
	}
	if res == solver.Unknown {
		ps.fail("budget", "solver unknown on obligation %q: %s", msg, ps.i.lastUnknown)
	}
	// outside every known region?
	outside := neg
	for _, k := range ps.known {
		outside = ps.cx.And(outside, ps.cx.Not(ps.asBoolTerm(k.cond)))
	}
	if len(ps.known) > 0 {
		for _, k := range ps.known {
			in := ps.cx.And(neg, ps.asBoolTerm(k.cond))
			r, m := ps.checkModel(in)
			if r == solver.Unknown {
				ps.fail("budget", "solver unknown on known-region query: %s", ps.i.lastUnknown)
			}
			if r == solver.Sat {
				ps.addViolation(kind, msg, m, k.id)
			}
		}
	}
	r, m := ps.checkModel(outside)
	if r == solver.Unknown {
		ps.fail("budget", "solver unknown on obligation model: %s", ps.i.lastUnknown)
	}
	if r == solver.Sat {
		ps.addViolation(kind, msg, m, "")
	}
	return true
}

func (ps *pathState) addViolation(kind, msg string, model map[string]uint64, known string) {
	full := map[string]uint64{}
	for k, v := range model {
		full[k] = v
	}
	for k, v := range ps.concrete {
		full[k] = v
	}
	decs := make([]Dec, len(ps.decs))
	copy(decs, ps.decs)
	ps.violations = append(ps.violations, &Violation{Kind: kind, Msg: msg, Model: full, Decs: decs, Known: known})
}

// assert discharges an obligation.
func (ps *pathState) assert(c value, msg string) {
	switch c := c.(type) {
	case bool:
		ps.obligsConc++
		if !c {
			// violated for every input on this path
			ps.violated("assert", msg, ps.cx.True())
			ps.fail("done", "assertion failed concretely: %s", msg)
		}
	case *sym.Term:
		ps.obligs++
		if ps.violated("assert", msg, ps.cx.Not(c)) {
			// continue on the part of the path where it holds, if any
			if ps.check(c) != solver.Sat {
				ps.fail("done", "assertion failed on the whole path: %s", msg)
			}
		}
		ps.addPC(c)
	default:
		panic(fmt.Sprintf("assert: %T", c))
	}
}

func (ps *pathState) assume(c value) {
	switch c := c.(type) {
	case bool:
		if !c {
			ps.fail("assume", "assumption false")
		}
	case *sym.Term:
		if c.IsConst() {
			if c.Val == 0 {
				ps.fail("assume", "assumption false")
			}
			return
		}
		res := ps.check(c)
		if res == solver.Unsat {
			ps.fail("assume", "assumption infeasible")
		}
		ps.addPC(c)
	}
}

// ---- explorer ---------------------------------------------------------------

type Config struct {
	MaxSteps      int
	MaxDecisions  int
	ConcretizeCap int
	MaxPaths      int
	AllocBudget   uint64 // bytes per path, 0 = default
	SolverTimeout int    // ms
	Solver        solver.Kind
	Trace         bool
	Deadline      time.Time
}

func (c *Config) defaults() {
	if c.MaxSteps == 0 {
		c.MaxSteps = 5_000_000
	}
	if c.MaxDecisions == 0 {
		c.MaxDecisions = 4000
	}
	if c.ConcretizeCap == 0 {
		c.ConcretizeCap = 64
	}
	if c.MaxPaths == 0 {
		c.MaxPaths = 200000
	}
	if c.AllocBudget == 0 {
		c.AllocBudget = 1 << 28
	}
	if c.SolverTimeout == 0 {
		c.SolverTimeout = 20000
	}
	if c.Solver == "" {
		c.Solver = solver.Z3New
	}
}

type Stats struct {
	Paths          int
	PathsReturn    int
	PathsPanic     int
	PathsPruned    int
	PathsAborted   int
	Steps          int64
	SolverQueries  int
	SolverUnknown  int
	Obligations    int
	ObligationsCon int
	MaxDecs        int
}
