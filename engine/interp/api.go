package interp

// Public API of the symbolic interpreter: program loading and path exploration.

import (
	"fmt"
	"go/types"
	"os"
	"runtime"
	"sort"
	"strings"
	"sync"
	"time"

	"golang.org/x/tools/go/packages"
	"golang.org/x/tools/go/ssa"
	"golang.org/x/tools/go/ssa/ssautil"

	"verif/engine/solver"
	"verif/engine/sym"
)

const VerifrtPath = "github.com/kstenerud/go-concise-encoding/internal/verifrt"

type Program struct {
	Prog    *ssa.Program
	Pkgs    []*ssa.Package
	Entries map[string]*ssa.Function
	Stubs   map[string]*ssa.Function
	Harness map[*ssa.Package]bool
	sizes   types.Sizes
	LoadDur time.Duration
}

// Load type-checks and builds SSA for the given package patterns in dir with the overlay.
// stubs maps callee name (ssa Function.String()) to the harness function name "pkgpath.Func".
func Load(dir string, patterns []string, overlay map[string][]byte, tags string, stubDecls map[string]string) (*Program, error) {
	t0 := time.Now()
	cfg := &packages.Config{
		Mode:       packages.LoadAllSyntax,
		Dir:        dir,
		Overlay:    overlay,
		BuildFlags: []string{"-tags=" + tags},
		Env:        append(os.Environ(), "GOFLAGS=-mod=mod", "GOPROXY=off", "GOSUMDB=off", "GOTOOLCHAIN=local", "CGO_ENABLED=0"),
	}
	pkgs, err := packages.Load(cfg, patterns...)
	if err != nil {
		return nil, err
	}
	var errs []string
	packages.Visit(pkgs, nil, func(p *packages.Package) {
		for _, e := range p.Errors {
			errs = append(errs, e.Error())
		}
	})
	if len(errs) > 0 {
		if len(errs) > 20 {
			errs = errs[:20]
		}
		return nil, fmt.Errorf("package errors:\n%s", strings.Join(errs, "\n"))
	}
	prog, spkgs := ssautil.AllPackages(pkgs, ssa.InstantiateGenerics|ssa.SanityCheckFunctions*0)
	prog.Build()
	p := &Program{Prog: prog, Entries: map[string]*ssa.Function{}, Stubs: map[string]*ssa.Function{}, Harness: map[*ssa.Package]bool{},
		sizes: &types.StdSizes{WordSize: 8, MaxAlign: 8}}
	for _, sp := range spkgs {
		if sp == nil {
			continue
		}
		p.Pkgs = append(p.Pkgs, sp)
		p.Harness[sp] = true
		for name, m := range sp.Members {
			if fn, ok := m.(*ssa.Function); ok && strings.HasPrefix(name, "Verif_") {
				p.Entries[name] = fn
			}
		}
	}
	for callee, hf := range stubDecls {
		k := strings.LastIndex(hf, ".")
		pkg := prog.ImportedPackage(hf[:k])
		if pkg == nil || pkg.Func(hf[k+1:]) == nil {
			return nil, fmt.Errorf("stub target %s not found", hf)
		}
		p.Stubs[callee] = pkg.Func(hf[k+1:])
	}
	p.LoadDur = time.Since(t0)
	return p, nil
}

func (p *Program) EntryNames() []string {
	var ns []string
	for n := range p.Entries {
		ns = append(ns, n)
	}
	sort.Strings(ns)
	return ns
}

func (p *Program) newInterpreter(cfg Config) *interpreter {
	i := &interpreter{
		prog:        p.Prog,
		globals:     make(map[*ssa.Global]*value),
		sizes:       p.sizes,
		goroutines:  1,
		cfg:         cfg,
		inited:      map[*ssa.Package]bool{},
		initFailed:  map[string]string{},
		stubs:       p.Stubs,
		funcsRun:    map[*ssa.Function]int{},
		harnessPkgs: p.Harness,
		backing:     map[*value][]value{},
		methCache:   map[methKey]*ssa.Function{},
		fnInfos:     map[*ssa.Function]*fnInfo{},
	}
	if cfg.Trace {
		i.mode |= EnableTracing
	}
	runtimePkg := i.prog.ImportedPackage("runtime")
	if runtimePkg == nil {
		panic("ssa.Program doesn't include runtime package")
	}
	i.runtimeErrorString = runtimePkg.Type("errorString").Object().Type()
	initReflect(i)
	for _, pkg := range i.prog.AllPackages() {
		for _, m := range pkg.Members {
			if v, ok := m.(*ssa.Global); ok {
				cell := zero(mustDeref(v.Type()))
				i.globals[v] = &cell
			}
		}
	}
	return i
}

// EntryResult aggregates the exploration of one entry.
type EntryResult struct {
	Entry           string
	Stats           Stats
	Violations      []*Violation
	Inconclusive    []string // reasons (unsupported, budget, unknown, vacuous, ...)
	Reached         map[string]int
	Expected        []string
	Outcomes        map[string]int
	Samples         []string
	Funcs           map[string]int // interpreted functions -> calls
	InitFailed      map[string]string
	Solver          solver.Stats
	Wall            time.Duration
	AbortMsgs       map[string]int
	MaxAlloc        uint64
	SolverQueries   int
	SolverUnknown   int
	SolverTime      time.Duration
	Steps           int64
	NonTrivialPaths int
	PathTime        time.Duration
	SendTime        time.Duration
	GetTime         time.Duration
}

// expectedLabels statically collects the constant labels of verifrt.Reach calls
// reachable from entry through harness-package functions.
func (p *Program) expectedLabels(entry *ssa.Function) []string {
	seen := map[*ssa.Function]bool{}
	labels := map[string]bool{}
	var visit func(f *ssa.Function)
	visit = func(f *ssa.Function) {
		if f == nil || seen[f] || f.Blocks == nil {
			return
		}
		seen[f] = true
		for _, an := range f.AnonFuncs {
			visit(an)
		}
		for _, b := range f.Blocks {
			for _, in := range b.Instrs {
				var cc *ssa.CallCommon
				switch in := in.(type) {
				case *ssa.Call:
					cc = &in.Call
				case *ssa.Defer:
					cc = &in.Call
				case *ssa.MakeClosure:
					if fn, ok := in.Fn.(*ssa.Function); ok {
						visit(fn)
					}
					continue
				default:
					continue
				}
				callee := cc.StaticCallee()
				if callee == nil {
					continue
				}
				if callee.String() == VerifrtPath+".Reach" {
					if c, ok := cc.Args[0].(*ssa.Const); ok {
						labels[constValue(c).(string)] = true
					}
					continue
				}
				if callee.Pkg != nil && p.Harness[callee.Pkg] && isHarnessFile(p.Prog, callee) {
					visit(callee)
				}
			}
		}
	}
	visit(entry)
	var ls []string
	for l := range labels {
		ls = append(ls, l)
	}
	sort.Strings(ls)
	return ls
}

func isHarnessFile(prog *ssa.Program, f *ssa.Function) bool {
	pos := prog.Fset.Position(f.Pos())
	return strings.Contains(pos.Filename, "zz_verif_")
}

// RunEntry explores all paths of an entry with `workers` interpreters.
func (p *Program) RunEntry(name string, cfg Config, workers int) *EntryResult {
	cfg.defaults()
	entry := p.Entries[name]
	res := &EntryResult{Entry: name, Reached: map[string]int{}, Outcomes: map[string]int{}, Funcs: map[string]int{},
		InitFailed: map[string]string{}, AbortMsgs: map[string]int{}}
	if entry == nil {
		res.Inconclusive = append(res.Inconclusive, "no such entry "+name)
		return res
	}
	res.Expected = p.expectedLabels(entry)
	t0 := time.Now()
	if workers < 1 {
		workers = 1
	}

	var mu sync.Mutex
	cond := sync.NewCond(&mu)
	work := [][]Dec{nil}
	active := 0
	paths := 0
	stop := false
	inconc := map[string]bool{}

	var wg sync.WaitGroup
	for w := 0; w < workers; w++ {
		wg.Add(1)
		go func(w int) {
			defer wg.Done()
			var i *interpreter
			var slv *solver.Solver
			defer func() {
				if slv != nil {
					mu.Lock()
					res.SolverQueries += slv.Stats.Queries
					res.SolverUnknown += slv.Stats.Unknown
					res.SolverTime += slv.Stats.Time
					res.SendTime += slv.Stats.SendTime
					res.GetTime += slv.Stats.GetTime
					for f, c := range i.funcsRun {
						res.Funcs[f.String()] += c
					}
					for k, v := range i.initFailed {
						res.InitFailed[k] = v
					}
					mu.Unlock()
					slv.Close()
				}
			}()
			for {
				mu.Lock()
				// a worker without an interpreter joins only when enough work is queued
				// (creating an interpreter and re-running package inits is not free)
				for !stop && ((len(work) == 0 && active > 0) || (i == nil && w > 0 && len(work) < 3*w && active > 0)) {
					cond.Wait()
				}
				if stop || (len(work) == 0 && active == 0) {
					mu.Unlock()
					cond.Broadcast()
					return
				}
				// DFS: take the most recently queued prefix
				prefix := work[len(work)-1]
				work = work[:len(work)-1]
				active++
				paths++
				pathNo := paths
				if paths > cfg.MaxPaths {
					inconc[fmt.Sprintf("path budget %d exhausted", cfg.MaxPaths)] = true
					stop = true
				}
				if !cfg.Deadline.IsZero() && time.Now().After(cfg.Deadline) {
					inconc["deadline reached before the exploration finished"] = true
					stop = true
				}
				mu.Unlock()

				if i == nil {
					i = p.newInterpreter(cfg)
					var err error
					slv, err = solver.Start(cfg.Solver, cfg.SolverTimeout)
					if err == nil && os.Getenv("GOSYM_LOG") != "" && w == 0 {
						f, _ := os.Create(os.Getenv("GOSYM_LOG"))
						slv.Log = f
					}
					if err == nil && os.Getenv("GOSYM_DUMP") != "" {
						slv.KeepScript = true
					}
					if err != nil {
						mu.Lock()
						inconc["cannot start solver: "+err.Error()] = true
						stop = true
						active--
						mu.Unlock()
						cond.Broadcast()
						return
					}
				}
				tp0 := time.Now()
				pr, ps := i.runPath(entry, prefix, slv)
				pathDur := time.Since(tp0)

				mu.Lock()
				active--
				work = append(work, ps.pending...)
				res.PathTime += pathDur
				res.Outcomes[pr.Outcome]++
				res.Stats.Paths++
				switch pr.Outcome {
				case "return":
					res.Stats.PathsReturn++
				case "panic":
					res.Stats.PathsPanic++
				case "assume-pruned", "done":
					res.Stats.PathsPruned++
				default:
					res.Stats.PathsAborted++
					m := pr.Outcome + ": " + pr.Msg
					if len(m) > 600 {
						m = m[:600]
					}
					res.AbortMsgs[m]++
					inconc[pr.Outcome+": "+firstLine(pr.Msg)] = true
				}
				if len(ps.decs) > res.Stats.MaxDecs {
					res.Stats.MaxDecs = len(ps.decs)
				}
				if ps.allocBytes > res.MaxAlloc {
					res.MaxAlloc = ps.allocBytes
				}
				if (pr.Outcome == "return" || pr.Outcome == "panic" || pr.Outcome == "done") && (len(ps.decs) > 0 || ps.obligs > 0) {
					res.NonTrivialPaths++
				}
				res.Steps += int64(ps.steps)
				res.Stats.Obligations += ps.obligs
				res.Stats.ObligationsCon += ps.obligsConc
				for l := range ps.reached {
					res.Reached[l]++
				}
				for _, v := range ps.violations {
					v.Entry = name
					v.PathNo = pathNo
					res.Violations = append(res.Violations, v)
				}
				if len(res.Samples) < 8 {
					res.Samples = append(res.Samples, ps.samples...)
				}
				mu.Unlock()
				cond.Broadcast()
			}
		}(w)
	}
	wg.Wait()
	// merge per-interpreter stats is done in runPath via res? (collected below)
	res.Wall = time.Since(t0)
	for k := range inconc {
		res.Inconclusive = append(res.Inconclusive, k)
	}
	// vacuity
	if res.Stats.PathsReturn == 0 && len(res.Violations) == 0 {
		res.Inconclusive = append(res.Inconclusive, "vacuous: no path returned normally")
	}
	for _, l := range res.Expected {
		if res.Reached[l] == 0 {
			res.Inconclusive = append(res.Inconclusive, "vacuous: label "+l+" never reached")
		}
	}
	sort.Strings(res.Inconclusive)
	return res
}

func firstLine(s string) string {
	if k := strings.Index(s, "\n"); k >= 0 {
		return s[:k]
	}
	return s
}

// runPath executes one path following prefix.
func (i *interpreter) runPath(entry *ssa.Function, prefix []Dec, slv *solver.Solver) (pr PathResult, ps *pathState) {
	cx := sym.NewCtx()
	ps = &pathState{i: i, cx: cx, prefix: prefix, slv: slv, pr: sym.NewPrinter(),
		names: map[string]int{}, concrete: map[string]uint64{}, reached: map[string]bool{}}
	cx.User = ps
	i.ps = ps
	i.depth = 0
	defer func() {
		i.ps = nil
		i.rollback()
		ps.finishSolver()
		pr.Steps = ps.steps
		pr.Decs = len(ps.decs)
	}()
	defer func() {
		if p := recover(); p != nil {
			switch p := p.(type) {
			case abort:
				switch p.kind {
				case "assume":
					pr.Outcome = "assume-pruned"
				case "done":
					pr.Outcome = "done"
				default:
					pr.Outcome = p.kind
				}
				pr.Msg = p.msg
			case targetPanic:
				pr.Outcome = "panic"
				pr.Msg = toString(p.v)
				i.escapedPanic(ps, pr.Msg)
			case runtimeErr:
				pr.Outcome = "panic"
				pr.Msg = "runtime error: " + string(p)
				i.escapedPanic(ps, pr.Msg)
			case runtime.Error:
				buf := make([]byte, 8192)
				buf = buf[:runtime.Stack(buf, false)]
				pr.Outcome = "engine-bug"
				pr.Msg = p.Error() + "\n" + string(buf)
			default:
				buf := make([]byte, 8192)
				buf = buf[:runtime.Stack(buf, false)]
				pr.Outcome = "engine-bug"
				pr.Msg = fmt.Sprintf("%v\n%s", p, buf)
			}
		}
	}()
	callSSA(i, nil, 0, entry, nil, nil)
	if ps.pos < len(ps.prefix) {
		pr.Outcome = "engine-bug"
		pr.Msg = "decision prefix not consumed (non-deterministic re-execution)"
		return
	}
	pr.Outcome = "return"
	return
}

// escapedPanic records a panic that escaped the harness entry as a violation.
func (i *interpreter) escapedPanic(ps *pathState, msg string) {
	defer func() {
		if p := recover(); p != nil {
			if _, ok := p.(abort); !ok {
				panic(p)
			}
		}
	}()
	if len(msg) > 300 {
		msg = msg[:300]
	}
	ps.violated("panic", "panic escaped the harness entry: "+msg, ps.cx.True())
}
