package interp

import (
	"fmt"
	"go/types"
	"os"
	"runtime"

	"golang.org/x/tools/go/ssa"

	"verif/engine/solver"
	"verif/engine/sym"
)

// runtimeErr is a Go run-time panic raised by the interpreted program (index
// out of range, nil dereference, ...). recover() in the target sees it as a
// runtime.errorString.
type runtimeErr string

func isEngineAbort(p interface{}) bool {
	_, ok := p.(abort)
	return ok
}

// ---- undo trail --------------------------------------------------------------

type undoRec struct {
	p   *value
	old value
	fn  func()
}

// store stores value v of type T into *addr, logging the old contents.
func (i *interpreter) store(T types.Type, addr *value, v value) {
	switch T := T.Underlying().(type) {
	case *types.Struct:
		lhs := (*addr).(structure)
		rhs := v.(structure)
		for k := range lhs {
			i.store(T.Field(k).Type(), &lhs[k], rhs[k])
		}
	case *types.Array:
		lhs := (*addr).(array)
		rhs := v.(array)
		for k := range lhs {
			i.store(T.Elem(), &lhs[k], rhs[k])
		}
	default:
		i.set(addr, v)
	}
}

// set is the single primitive cell write.
func (i *interpreter) set(addr *value, v value) {
	if i.inInit == 0 && i.ps != nil {
		i.trail = append(i.trail, undoRec{p: addr, old: *addr})
	}
	*addr = v
}

func (i *interpreter) logUndo(fn func()) {
	if i.inInit == 0 && i.ps != nil {
		i.trail = append(i.trail, undoRec{fn: fn})
	}
}

func (i *interpreter) rollback() {
	for k := len(i.trail) - 1; k >= 0; k-- {
		r := i.trail[k]
		if r.fn != nil {
			r.fn()
		} else {
			*r.p = r.old
		}
	}
	i.trail = i.trail[:0]
}

// ---- indices, lengths, allocation --------------------------------------------

// index checks idx against [0,n) (forking a panic path when symbolic) and
// returns a concrete index (forking per feasible value when symbolic).
func (i *interpreter) index(idx value, n int, it types.Type) int {
	if t, ok := idx.(*sym.Term); ok {
		ps := psOf(t)
		cx := ps.cx
		inb := inBounds(cx, t, n, it)
		if !ps.branch(inb) {
			panic(runtimeErr(fmt.Sprintf("index out of range [symbolic] with length %d", n)))
		}
		return int(ps.concretize(t, "index"))
	}
	k := asInt64(idx)
	if k < 0 || k >= int64(n) {
		panic(runtimeErr(fmt.Sprintf("index out of range [%d] with length %d", k, n)))
	}
	return int(k)
}

// indexRead reads elems[idx]; a symbolic index over scalar elements becomes
// an ite chain instead of a fork.
// inBounds builds 0 <= idx < n for an index of static type it.
func inBounds(cx *sym.Ctx, t *sym.Term, n int, it types.Type) *sym.Term {
	if n == 0 {
		return cx.False()
	}
	var wide *sym.Term
	if b := basicOf(it); b != nil && !isSignedKind(b.Kind()) {
		wide = cx.Zext(t, 64)
	} else {
		wide = cx.Sext(t, 64)
	}
	return cx.Cmp(sym.OpUlt, wide, cx.Const(64, uint64(n)))
}

func (i *interpreter) indexRead(elems []value, idx value, it types.Type) value {
	t, ok := idx.(*sym.Term)
	if !ok {
		k := asInt64(idx)
		if k < 0 || k >= int64(len(elems)) {
			panic(runtimeErr(fmt.Sprintf("index out of range [%d] with length %d", k, len(elems))))
		}
		return elems[k]
	}
	ps := psOf(t)
	cx := ps.cx
	n := len(elems)
	inb := inBounds(cx, t, n, it)
	if !ps.branch(inb) {
		panic(runtimeErr(fmt.Sprintf("index out of range [symbolic] with length %d", n)))
	}
	if r, ok := iteChain(cx, elems, t); ok {
		return r
	}
	if n > 1024 {
		// large table: narrow the feasible index range with the solver, then
		// build the (run-compressed) chain over that window only
		if lo, hi, ok := ps.rangeOf(t, uint64(n-1)); ok && hi-lo < 1<<16 {
			if r, ok := iteChainWindow(cx, elems, t, int(lo), int(hi)); ok {
				return r
			}
		}
	}
	return elems[ps.concretize(t, "index")]
}

// rangeOf finds the smallest and largest feasible values of t (unsigned, known
// to be <= max) by binary search over solver queries.
func (ps *pathState) rangeOf(t *sym.Term, max uint64) (lo, hi uint64, ok bool) {
	cx := ps.cx
	// largest feasible value
	l, h := uint64(0), max
	for l < h {
		mid := l + (h-l+1)/2
		switch ps.check(cx.Cmp(sym.OpUle, cx.Const(t.W, mid), t)) {
		case solver.Sat:
			l = mid
		case solver.Unsat:
			h = mid - 1
		default:
			return 0, 0, false
		}
	}
	hi = l
	l, h = 0, hi
	for l < h {
		mid := l + (h-l)/2
		switch ps.check(cx.Cmp(sym.OpUle, t, cx.Const(t.W, mid))) {
		case solver.Sat:
			h = mid
		case solver.Unsat:
			l = mid + 1
		default:
			return 0, 0, false
		}
	}
	return l, hi, true
}

// iteChainWindow is iteChain restricted to elems[lo..hi] (idx is known to lie
// in that window on this path).
func iteChainWindow(cx *sym.Ctx, elems []value, idx *sym.Term, lo, hi int) (value, bool) {
	var r *sym.Term
	var next *sym.Term
	runs := 0
	for k := hi; k >= lo; k-- {
		t, ok := scalarTerm(cx, elems[k])
		if !ok {
			return nil, false
		}
		if r == nil {
			r, next = t, t
			continue
		}
		if t.W != next.W {
			return nil, false
		}
		if t == next {
			continue
		}
		r = cx.Ite(cx.Cmp(sym.OpUle, idx, cx.Const(idx.W, uint64(k))), t, r)
		next = t
		runs++
		if runs > 4096 {
			return nil, false
		}
	}
	return r, true
}

// iteChain builds ite(idx==0,e0, ite(idx==1,e1,...)) when all elements are
// scalars of one width.
func iteChain(cx *sym.Ctx, elems []value, idx *sym.Term) (value, bool) {
	if len(elems) == 0 || len(elems) > 1024 {
		return nil, false
	}
	w := -1
	ts := make([]*sym.Term, len(elems))
	for k, e := range elems {
		t, ok := scalarTerm(cx, e)
		if !ok {
			return nil, false
		}
		if w == -1 {
			w = t.W
		} else if w != t.W {
			return nil, false
		}
		ts[k] = t
	}
	// run-compressed: ite(idx <= hi0, v0, ite(idx <= hi1, v1, ... vLast)); the
	// caller has already asserted 0 <= idx < len.
	r := ts[len(ts)-1]
	for k := len(ts) - 2; k >= 0; k-- {
		if ts[k] == ts[k+1] {
			continue // same run
		}
		r = cx.Ite(cx.Cmp(sym.OpUle, idx, cx.Const(idx.W, uint64(k))), ts[k], r)
	}
	return r, true
}

// concreteLen turns a length/capacity operand into a Go int. A symbolic
// length is first checked against the allocation budget (a feasible oversized
// request is a fatal outcome), then concretised.
func (i *interpreter) concreteLen(v value, elem types.Type, what string) int {
	if t, ok := v.(*sym.Term); ok {
		ps := psOf(t)
		cx := ps.cx
		esz := uint64(1)
		if elem != nil {
			esz = uint64(i.sizes.Sizeof(elem))
			if esz == 0 {
				esz = 1
			}
		}
		limit := i.cfg.AllocBudget / esz
		// signed negative => makeslice panic
		neg := cx.Cmp(sym.OpSlt, t, cx.Const(t.W, 0))
		if ps.branch(neg) {
			panic(runtimeErr("makeslice: len out of range"))
		}
		big := cx.Cmp(sym.OpUlt, cx.Const(t.W, limit), t)
		if r := ps.check(big); r != solver.Unsat {
			if r == solver.Unknown {
				ps.fail("budget", "solver unknown on allocation size")
			}
			ps.violated("fatal", fmt.Sprintf("%s: allocation request can exceed the budget of %d bytes", what, i.cfg.AllocBudget), big)
			ps.addPC(cx.Not(big))
			if ps.check() != solver.Sat {
				ps.fail("done", "oversized allocation on the whole path")
			}
		}
		return int(ps.concretize(t, what))
	}
	return int(asInt64(v))
}

func (i *interpreter) chargeAlloc(n uint64, elem types.Type) {
	esz := uint64(1)
	if elem != nil {
		esz = uint64(i.sizes.Sizeof(elem))
	}
	bytes := n * esz
	if ps := i.ps; ps != nil && i.inInit == 0 {
		ps.allocBytes += bytes
		if n > i.cfg.AllocBudget || bytes > i.cfg.AllocBudget {
			ps.violated("fatal", fmt.Sprintf("allocation of %d bytes exceeds the budget of %d bytes", bytes, i.cfg.AllocBudget), ps.cx.True())
			ps.fail("done", "oversized allocation (%d bytes)", bytes)
		}
	} else if bytes > 1<<32 {
		panic(abort{"fatal", "huge allocation during init"})
	}
}

// ---- lazy package initialisation -----------------------------------------------

// packages whose initializers are never run (unsafe/runtime internals); their
// functions are reached only through externals.
var noInitPkgs = map[string]bool{
	"runtime": true, "unsafe": true, "reflect": true, "internal/reflectlite": true,
	"sync": true, "sync/atomic": true, "internal/cpu": true, "internal/abi": true,
	"runtime/internal/sys": true, "internal/bytealg": true, "internal/godebug": true,
	"internal/race": true, "syscall": true, "internal/poll": true, "os": true,
	"internal/testlog": true, "internal/syscall/unix": true, "internal/oserror": true,
	"internal/goos": true, "internal/goarch": true, "runtime/internal/atomic": true,
	"internal/runtime/atomic": true, "runtime/internal/math": true, "internal/chacha8rand": true,
	"internal/godebugs": true, "io/fs": true, "path": true, "internal/fmtsort": true,
	"testing": true, "flag": true, "os/signal": true, "runtime/debug": true, "log": true,
}

func (i *interpreter) ensureInit(pkg *ssa.Package) {
	if i.inited[pkg] {
		return
	}
	i.inited[pkg] = true
	path := pkg.Pkg.Path()
	if noInitPkgs[path] {
		return
	}
	init := pkg.Func("init")
	if init == nil || init.Blocks == nil {
		return
	}
	saved := i.initRunning
	i.initRunning = pkg
	i.inInit++
	savedDepth := i.depth
	defer func() {
		i.inInit--
		i.initRunning = saved
		i.depth = savedDepth
		if p := recover(); p != nil {
			var reason string
			switch p := p.(type) {
			case abort:
				reason = p.Error()
			case targetPanic:
				reason = "panic: " + toString(p.v)
			case runtime.Error:
				buf := make([]byte, 2048)
				buf = buf[:runtime.Stack(buf, false)]
				reason = "engine crash: " + p.Error() + "\n" + string(buf)
			default:
				reason = fmt.Sprintf("%v", p)
			}
			i.initFailed[path] = reason
			if i.cfg.Trace || os.Getenv("GOSYM_DEBUG_INIT") != "" {
				fmt.Fprintf(os.Stderr, "gosym: init of %s abandoned: %s\n", path, reason)
			}
		}
	}()
	callSSA(i, nil, 0, init, nil, nil)
}
