package interp

// Insertion-ordered maps with symbolic-aware key comparison. Replaces both map
// representations of the stock interpreter so that iteration order is
// deterministic (re-execution of decision prefixes depends on it) and keys
// may contain symbolic parts.

import (
	"fmt"
	"go/types"
	"strconv"
	"strings"
	"sync"

	"verif/engine/sym"
)

type mentry struct {
	key   value
	val   value
	ckey  string // canonical string of a fully concrete key ("" if symbolic)
	alive bool
}

type omap struct {
	keyType types.Type
	entries []*mentry
	idx     map[string]*mentry // concrete keys
	nsym    int                // live entries with symbolic keys
	length  int
}

func makeMap(kt types.Type, reserve int64) value {
	return &omap{keyType: kt, idx: make(map[string]*mentry)}
}

func (m *omap) len() int {
	if m == nil {
		return 0
	}
	return m.length
}

// canonKey renders a fully concrete key as a string; ok=false if any part is
// symbolic.
func canonKey(sb *strings.Builder, v value) bool {
	switch v := v.(type) {
	case bool, int, int8, int16, int32, int64, uint, uint8, uint16, uint32, uint64, uintptr:
		fmt.Fprintf(sb, "%T:%v;", v, v)
	case float32:
		if v != v {
			return false // NaN never equals anything; treat as "symbolic" (always a miss)
		}
		if v == 0 {
			v = 0
		}
		fmt.Fprintf(sb, "f32:%v;", v)
	case float64:
		if v != v {
			return false
		}
		if v == 0 {
			v = 0
		}
		fmt.Fprintf(sb, "f64:%v;", v)
	case string:
		fmt.Fprintf(sb, "s%d:%s;", len(v), v)
	case *value:
		fmt.Fprintf(sb, "p:%p;", v)
	case iface:
		if v.t == nil {
			sb.WriteString("nil;")
			return true
		}
		sb.WriteString("i(")
		sb.WriteString(typeKey(v.t))
		sb.WriteString("):")
		return canonKey(sb, v.v)
	case structure:
		sb.WriteString("{")
		for _, f := range v {
			if !canonKey(sb, f) {
				return false
			}
		}
		sb.WriteString("}")
	case array:
		sb.WriteString("[")
		for _, f := range v {
			if !canonKey(sb, f) {
				return false
			}
		}
		sb.WriteString("]")
	case rtype:
		sb.WriteString("rt:")
		if v.t != nil {
			sb.WriteString(typeKey(v.t))
		}
		sb.WriteString(";")
	case *sym.Term, sstr:
		return false
	default:
		// unhashable in Go (slice, map, func) or exotic
		panic(targetPanic{iface{t: nil, v: nil}})
	}
	return true
}

func ckeyOf(k value) string {
	var sb strings.Builder
	if canonKey(&sb, k) {
		return sb.String()
	}
	return ""
}

func isNaNKey(k value) bool {
	switch k := k.(type) {
	case float32:
		return k != k
	case float64:
		return k != k
	}
	return false
}

// find returns the entry equal to k, deciding symbolic equalities by forking.
func (m *omap) find(i *interpreter, k value) *mentry {
	if m == nil {
		return nil
	}
	ck := ckeyOf(k)
	if ck != "" {
		if e := m.idx[ck]; e != nil {
			return e
		}
		if m.nsym == 0 {
			return nil
		}
		for _, e := range m.entries {
			if e.alive && e.ckey == "" {
				if i.decideEq(m.keyType, k, e.key) {
					return e
				}
			}
		}
		return nil
	}
	if isNaNKey(k) {
		return nil
	}
	for _, e := range m.entries {
		if e.alive {
			if i.decideEq(m.keyType, k, e.key) {
				return e
			}
		}
	}
	return nil
}

func (m *omap) lookup(i *interpreter, k value) (value, bool) {
	if e := m.find(i, k); e != nil {
		return e.val, true
	}
	return nil, false
}

func (m *omap) insert(i *interpreter, k, v value) {
	if e := m.find(i, k); e != nil {
		old := e.val
		i.logUndo(func() { e.val = old })
		e.val = v
		return
	}
	e := &mentry{key: k, val: v, ckey: ckeyOf(k), alive: true}
	m.entries = append(m.entries, e)
	if e.ckey != "" {
		m.idx[e.ckey] = e
	} else {
		m.nsym++
	}
	m.length++
	i.logUndo(func() { m.remove(e); m.entries = m.entries[:len(m.entries)-1] })
}

func (m *omap) remove(e *mentry) {
	e.alive = false
	if e.ckey != "" {
		delete(m.idx, e.ckey)
	} else {
		m.nsym--
	}
	m.length--
}

func (m *omap) delete(i *interpreter, k value) {
	if m == nil {
		return
	}
	if e := m.find(i, k); e != nil {
		m.remove(e)
		i.logUndo(func() {
			e.alive = true
			if e.ckey != "" {
				m.idx[e.ckey] = e
			} else {
				m.nsym++
			}
			m.length++
		})
	}
}

type omapIter struct {
	m   *omap
	pos int
}

func (it *omapIter) next() tuple {
	if it.m != nil {
		for it.pos < len(it.m.entries) {
			e := it.m.entries[it.pos]
			it.pos++
			if e.alive {
				return tuple{true, e.key, e.val}
			}
		}
	}
	return tuple{false, nil, nil}
}

// typeKey is a canonical string for a type (identical types give identical
// strings); named and basic types are cached, composites are assembled from
// their parts, so that map keys holding reflect.Type values are cheap.
var typeKeyCache sync.Map // types.Type -> string

func typeKey(t types.Type) string {
	switch u := t.(type) {
	case *types.Pointer:
		return "*" + typeKey(u.Elem())
	case *types.Slice:
		return "[]" + typeKey(u.Elem())
	case *types.Array:
		return "[" + strconv.FormatInt(u.Len(), 10) + "]" + typeKey(u.Elem())
	case *types.Map:
		return "map[" + typeKey(u.Key()) + "]" + typeKey(u.Elem())
	}
	if s, ok := typeKeyCache.Load(t); ok {
		return s.(string)
	}
	s := types.TypeString(t, nil)
	switch t.(type) {
	case *types.Named, *types.Basic, *types.Alias:
		typeKeyCache.Store(t, s)
	default:
		if it, ok := t.(*types.Interface); ok && it.Empty() {
			typeKeyCache.Store(t, s)
		}
	}
	return s
}
