package interp

import (
	"fmt"
	"go/types"
	"os"

	"verif/engine/sym"
)

func init() {
	p := VerifrtPath + "."
	mk := func(w int, k types.BasicKind) externalFn {
		return func(fr *frame, args []value) value {
			ps := fr.i.needPS("verifrt input")
			t := ps.newInput(args[0].(string), w)
			_ = k
			return t
		}
	}
	for name, e := range map[string]externalFn{
		"Bool": mk(0, types.Bool),
		"U8":   mk(8, types.Uint8), "U16": mk(16, types.Uint16), "U32": mk(32, types.Uint32), "U64": mk(64, types.Uint64),
		"I8": mk(8, types.Int8), "I16": mk(16, types.Int16), "I32": mk(32, types.Int32), "I64": mk(64, types.Int64),
		"Int": mk(64, types.Int),
		"Bytes": func(fr *frame, args []value) value {
			ps := fr.i.needPS("verifrt.Bytes")
			name := args[0].(string)
			n := args[1].(int)
			r := make([]value, n)
			for k := range r {
				r[k] = ps.newInput(fmt.Sprintf("%s[%d]", name, k), 8)
			}
			return r
		},
		"Choice": func(fr *frame, args []value) value {
			ps := fr.i.needPS("verifrt.Choice")
			name := ps.uniqueName(args[0].(string))
			n := args[1].(int)
			k := ps.choice(n)
			ps.concrete[name] = uint64(k)
			return k
		},
		"Assume": func(fr *frame, args []value) value {
			fr.i.needPS("verifrt.Assume").assume(args[0])
			return nil
		},
		"Assert": func(fr *frame, args []value) value {
			fr.i.needPS("verifrt.Assert").assert(args[0], args[1].(string))
			return nil
		},
		"Reach": func(fr *frame, args []value) value {
			fr.i.needPS("verifrt.Reach").reached[args[0].(string)] = true
			return nil
		},
		"Known": func(fr *frame, args []value) value {
			ps := fr.i.needPS("verifrt.Known")
			ps.known = append(ps.known, knownRegion{id: args[0].(string), cond: args[1]})
			return nil
		},
		"Note": func(fr *frame, args []value) value {
			ps := fr.i.needPS("verifrt.Note")
			if s, ok := args[0].(string); ok && len(ps.samples) < 4 {
				ps.samples = append(ps.samples, s)
			}
			return nil
		},
		"AllocBudget": func(fr *frame, args []value) value {
			fr.i.cfg.AllocBudget = args[0].(uint64)
			return nil
		},
		"Allocated": func(fr *frame, args []value) value {
			return fr.i.needPS("verifrt.Allocated").allocBytes
		},
		"Symbolic": func(fr *frame, args []value) value { return true },
		"HangBudget": func(fr *frame, args []value) value {
			ps := fr.i.needPS("verifrt.HangBudget")
			ps.hangBudget = ps.steps + args[0].(int)
			if args[0].(int) == 0 {
				ps.hangBudget = 0
			}
			return nil
		},
	} {
		externals[p+name] = e
	}
}

func (i *interpreter) needPS(what string) *pathState {
	if i.ps == nil || i.inInit > 0 {
		unsupported("%s outside a path (package initialisation?)", what)
	}
	return i.ps
}

var _ = sym.OpAdd

func init() {
	p := VerifrtPath + "."
	boolT := types.Typ[types.Bool]
	fold := func(and bool) externalFn {
		return func(fr *frame, args []value) value {
			var acc value = and
			for _, c := range args[0].([]value) {
				if and {
					acc = andV(acc, c)
				} else {
					acc = notV(andV(notV(acc), notV(c)))
				}
			}
			return acc
		}
	}
	externals[p+"And"] = fold(true)
	externals[p+"Or"] = fold(false)
	externals[p+"Implies"] = func(fr *frame, args []value) value {
		return notV(andV(args[0], notV(args[1])))
	}
	externals[p+"BytesEq"] = func(fr *frame, args []value) value {
		return bytesEqual(toValues(fr.i, args[0]), toValues(fr.i, args[1]))
	}
	externals[p+"Thorough"] = func(fr *frame, args []value) value {
		return os.Getenv("VERIF_TIER") == "thorough"
	}
	externals[p+"IteU64"] = func(fr *frame, args []value) value {
		c, ok := args[0].(*sym.Term)
		if !ok {
			if args[0].(bool) {
				return args[1]
			}
			return args[2]
		}
		cx := c.C
		return norm(types.Typ[types.Uint64], cx.Ite(c, mustTerm(cx, args[1]), mustTerm(cx, args[2])))
	}
	_ = boolT
}
