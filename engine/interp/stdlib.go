package interp

// Stubs for standard-library functions that cannot be interpreted from source
// (assembly, unsafe, runtime internals) or whose result is deliberately opaque
// (fmt in error paths).

import (
	"fmt"
	"go/token"
	"go/types"
	"strings"

	"golang.org/x/tools/go/ssa"

	"verif/engine/sym"
)

// opaque text produced by a formatting stub: the format is kept, arguments dropped.
func fmtOpaque(fr *frame, format value, what string) string {
	if s, ok := format.(string); ok {
		return what + ":" + s
	}
	return what + ":<symbolic format>"
}

func (i *interpreter) errorValue(msg string) value {
	return iface{t: errorType, v: msg}
}

func init() {
	noop := func(fr *frame, args []value) value { return nil }
	for k, v := range map[string]externalFn{
		// ---- fmt (opaque) ----
		"fmt.Errorf": func(fr *frame, args []value) value {
			return fr.i.errorValue(fmtOpaque(fr, args[0], "fmt.Errorf"))
		},
		"fmt.Sprintf": func(fr *frame, args []value) value {
			return fr.i.sprintf(args[0], args[1].([]value))
		},
		"fmt.Sprint": func(fr *frame, args []value) value {
			return fr.i.sprint(args[0].([]value), false)
		},
		"fmt.Sprintln": func(fr *frame, args []value) value {
			return fr.i.sprint(args[0].([]value), true)
		},
		"fmt.Printf":  func(fr *frame, args []value) value { return tuple{0, iface{}} },
		"fmt.Println": func(fr *frame, args []value) value { return tuple{0, iface{}} },
		"fmt.Print":   func(fr *frame, args []value) value { return tuple{0, iface{}} },
		// go-describe renders values for error messages only: opaque text
		"github.com/kstenerud/go-describe.D":        func(fr *frame, args []value) value { return "<described value>" },
		"github.com/kstenerud/go-describe.Describe": func(fr *frame, args []value) value { return "<described value>" },
		// regexp.Compile of a concrete pattern is deterministic and slow to
		// interpret: compile once per worker, outside the undo trail (like a
		// package initialiser), and hand out the same *Regexp afterwards.
		"regexp.Compile":   extRegexpCompile,
		"sort.SliceStable": extSortSlice,
		"sort.Slice":       extSortSlice,
		"fmt.Fprintf": func(fr *frame, args []value) value {
			// format with the Sprintf model, then call the writer's real Write method
			text := fr.i.sprintf(args[1], args[2].([]value))
			w := args[0].(iface)
			if w.t == nil {
				panic(runtimeErr("invalid memory address or nil pointer dereference"))
			}
			m := fr.i.prog.LookupMethod(w.t, nil, "Write")
			if m == nil {
				unsupported("fmt.Fprintf: writer %v has no Write method", w.t)
			}
			return callSSA(fr.i, fr, 0, m, []value{w.v, strBytes(text)}, nil)
		},
		"fmt.Fprintln": func(fr *frame, args []value) value { unsupported("fmt.Fprintln"); return nil },
		"fmt.Fprint":   func(fr *frame, args []value) value { unsupported("fmt.Fprint"); return nil },
		// ---- sync ----
		"(*sync.Mutex).Lock":      noop,
		"(*sync.Mutex).Unlock":    noop,
		"(*sync.Mutex).TryLock":   func(fr *frame, args []value) value { return true },
		"(*sync.RWMutex).Lock":    noop,
		"(*sync.RWMutex).Unlock":  noop,
		"(*sync.RWMutex).RLock":   noop,
		"(*sync.RWMutex).RUnlock": noop,
		"(*sync.Once).Do": func(fr *frame, args []value) value {
			// Once{done atomic.Uint32{_ noCopy; v uint32}, m Mutex}
			once := (*args[0].(*value)).(structure)
			done := once[0].(structure)
			if done[1].(uint32) == 0 {
				fr.i.set(&done[1], uint32(1))
				call(fr.i, fr, 0, args[1], nil)
			}
			return nil
		},
		"(*sync.Pool).Get": func(fr *frame, args []value) value {
			pool := (*args[0].(*value)).(structure)
			// field "New" is the last field
			nf := pool[len(pool)-1]
			switch f := nf.(type) {
			case *ssa.Function:
				if f == nil {
					return iface{}
				}
			}
			return call(fr.i, fr, 0, nf, nil)
		},
		"(*sync.Pool).Put": noop,
		// WaitGroup, sequential model: a counter; Wait on a non-zero counter
		// would block forever in a single goroutine, which is outside the model.
		"(*sync.WaitGroup).Add": func(fr *frame, args []value) value {
			c := fr.i.waitGroup(args[0].(*value))
			old := *c
			fr.i.logUndo(func() { *c = old })
			*c += int(asInt64(args[1]))
			if *c < 0 {
				panic(targetPanic{iface{t: types.Typ[types.String], v: "sync: negative WaitGroup counter"}})
			}
			return nil
		},
		"(*sync.WaitGroup).Done": func(fr *frame, args []value) value {
			c := fr.i.waitGroup(args[0].(*value))
			old := *c
			fr.i.logUndo(func() { *c = old })
			*c--
			if *c < 0 {
				panic(targetPanic{iface{t: types.Typ[types.String], v: "sync: negative WaitGroup counter"}})
			}
			return nil
		},
		"(*sync.WaitGroup).Wait": func(fr *frame, args []value) value {
			if n := *fr.i.waitGroup(args[0].(*value)); n != 0 {
				// one goroutine, nobody left to call Done: this Wait never returns
				if ps := fr.i.ps; ps != nil && fr.i.inInit == 0 {
					ps.violated("fatal", fmt.Sprintf("sync.WaitGroup.Wait blocks forever (counter %d and no goroutine left to call Done)", n), ps.cx.True())
					ps.fail("done", "blocked in sync.WaitGroup.Wait")
				}
				unsupported("sync.WaitGroup.Wait with a non-zero counter during initialisation")
			}
			return nil
		},
		// sync.Map, sequential model: an insertion-ordered map kept beside the
		// struct, keyed by the struct's address.
		"(*sync.Map).Load": func(fr *frame, args []value) value {
			if v, ok := fr.i.syncMap(args[0].(*value)).lookup(fr.i, args[1]); ok {
				return tuple{v, true}
			}
			return tuple{iface{}, false}
		},
		"(*sync.Map).Store": func(fr *frame, args []value) value {
			fr.i.syncMap(args[0].(*value)).insert(fr.i, args[1], args[2])
			return nil
		},
		"(*sync.Map).LoadOrStore": func(fr *frame, args []value) value {
			m := fr.i.syncMap(args[0].(*value))
			if v, ok := m.lookup(fr.i, args[1]); ok {
				return tuple{v, true}
			}
			m.insert(fr.i, args[1], args[2])
			return tuple{args[2], false}
		},
		"(*sync.Map).LoadAndDelete": func(fr *frame, args []value) value {
			m := fr.i.syncMap(args[0].(*value))
			if v, ok := m.lookup(fr.i, args[1]); ok {
				m.delete(fr.i, args[1])
				return tuple{v, true}
			}
			return tuple{iface{}, false}
		},
		"(*sync.Map).Range": func(fr *frame, args []value) value {
			m := fr.i.syncMap(args[0].(*value))
			for k := 0; k < len(m.entries); k++ { // entries added during the walk are visited too, as sync.Map allows
				e := m.entries[k]
				if !e.alive {
					continue
				}
				r := call(fr.i, fr, 0, args[1], []value{e.key, e.val})
				if t, ok := r.(*sym.Term); ok {
					if !psOf(t).branch(t) {
						break
					}
				} else if !r.(bool) {
					break
				}
			}
			return nil
		},
		"(*sync.Map).Delete": func(fr *frame, args []value) value {
			fr.i.syncMap(args[0].(*value)).delete(fr.i, args[1])
			return nil
		},
		// ---- runtime / misc ----
		"runtime.SetFinalizer":                      noop,
		"runtime.KeepAlive":                         noop,
		"runtime.Caller":                            func(fr *frame, args []value) value { return tuple{uintptr(0), "?", 0, false} },
		"runtime.Callers":                           func(fr *frame, args []value) value { return 0 },
		"runtime/debug.Stack":                       func(fr *frame, args []value) value { return []value{} },
		"runtime/debug.PrintStack":                  noop,
		"os.Getenv":                                 func(fr *frame, args []value) value { return "" },
		"os.LookupEnv":                              func(fr *frame, args []value) value { return tuple{"", false} },
		"time.Now":                                  func(fr *frame, args []value) value { unsupported("time.Now"); return nil },
		"internal/godebug.(*Setting).Value":         func(fr *frame, args []value) value { return "" },
		"internal/godebug.(*Setting).IncNonDefault": noop,
		// ---- strings.Builder / unsafe string tricks ----
		"(*strings.Builder).String": func(fr *frame, args []value) value {
			b := (*args[0].(*value)).(structure)
			return mkstr(b[1].([]value))
		},
		"(*strings.Builder).copyCheck": noop,
		"internal/abi.NoEscape":        func(fr *frame, args []value) value { return args[0] },
		"internal/abi.Escape":          func(fr *frame, args []value) value { return args[0] },
		"internal/stringslite.Clone":   func(fr *frame, args []value) value { return args[0] },
		"strings.Clone":                func(fr *frame, args []value) value { return args[0] },
		// ---- internal/bytealg (assembly on amd64) ----
		"internal/bytealg.IndexByte": func(fr *frame, args []value) value {
			return indexByte(fr.i, toValues(fr.i, args[0]), args[1])
		},
		"internal/bytealg.IndexByteString": func(fr *frame, args []value) value {
			return indexByte(fr.i, strBytes(args[0]), args[1])
		},
		"internal/bytealg.CountString": func(fr *frame, args []value) value {
			return countByte(fr.i, strBytes(args[0]), args[1])
		},
		"internal/bytealg.Count": func(fr *frame, args []value) value {
			return countByte(fr.i, toValues(fr.i, args[0]), args[1])
		},
		"internal/bytealg.Equal": func(fr *frame, args []value) value {
			return bytesEqual(toValues(fr.i, args[0]), toValues(fr.i, args[1]))
		},
		"bytes.Equal": func(fr *frame, args []value) value {
			return bytesEqual(toValues(fr.i, args[0]), toValues(fr.i, args[1]))
		},
		"internal/bytealg.Compare": func(fr *frame, args []value) value {
			return bytesCompare(fr.i, toValues(fr.i, args[0]), toValues(fr.i, args[1]))
		},
		"internal/bytealg.CompareString": func(fr *frame, args []value) value {
			return bytesCompare(fr.i, strBytes(args[0]), strBytes(args[1]))
		},
		"internal/bytealg.MakeNoZero": func(fr *frame, args []value) value {
			n := args[0].(int)
			fr.i.chargeAlloc(uint64(n), types.Typ[types.Uint8])
			r := make([]value, n)
			for k := range r {
				r[k] = uint8(0)
			}
			return r
		},
		"internal/bytealg.Index": func(fr *frame, args []value) value {
			return indexSub(fr.i, toValues(fr.i, args[0]), toValues(fr.i, args[1]))
		},
		"internal/bytealg.IndexString": func(fr *frame, args []value) value {
			return indexSub(fr.i, strBytes(args[0]), strBytes(args[1]))
		},
		"internal/bytealg.LastIndexByte": func(fr *frame, args []value) value {
			return lastIndexByte(fr.i, toValues(fr.i, args[0]), args[1])
		},
		"internal/bytealg.LastIndexByteString": func(fr *frame, args []value) value {
			return lastIndexByte(fr.i, strBytes(args[0]), args[1])
		},
		"runtime.memequal": func(fr *frame, args []value) value { unsupported("runtime.memequal"); return nil },
	} {
		externals[k] = v
	}
}

func byteEq(a, b value) value {
	return symEq(types.Typ[types.Uint8], a, b)
}

func indexByte(i *interpreter, s []value, c value) value {
	for k, b := range s {
		if decide(byteEq(b, c)) {
			return k
		}
	}
	return -1
}

func lastIndexByte(i *interpreter, s []value, c value) value {
	for k := len(s) - 1; k >= 0; k-- {
		if decide(byteEq(s[k], c)) {
			return k
		}
	}
	return -1
}

func countByte(i *interpreter, s []value, c value) value {
	n := 0
	for _, b := range s {
		if decide(byteEq(b, c)) {
			n++
		}
	}
	return n
}

func bytesEqual(a, b []value) value {
	if len(a) != len(b) {
		return false
	}
	var acc value = true
	for k := range a {
		acc = andV(acc, byteEq(a[k], b[k]))
		if acc == false {
			return false
		}
	}
	return acc
}

func bytesCompare(i *interpreter, a, b []value) value {
	n := len(a)
	if len(b) < n {
		n = len(b)
	}
	u8 := types.Typ[types.Uint8]
	for k := 0; k < n; k++ {
		if decide(byteEq(a[k], b[k])) {
			continue
		}
		if decide(binop2(token.LSS, u8, u8, a[k], b[k])) {
			return -1
		}
		return 1
	}
	switch {
	case len(a) < len(b):
		return -1
	case len(a) > len(b):
		return 1
	}
	return 0
}

func indexSub(i *interpreter, s, sub []value) value {
	for k := 0; k+len(sub) <= len(s); k++ {
		if decide(bytesEqual(s[k:k+len(sub)], sub)) {
			return k
		}
	}
	return -1
}

// sprintf: opaque unless every argument is a concrete scalar/string and the
// format is concrete, in which case the host fmt gives the real text.
func (i *interpreter) sprintf(format value, args []value) value {
	f, ok := format.(string)
	if !ok {
		return "fmt.Sprintf:<symbolic format>"
	}
	var goArgs []interface{}
	allHost := true
	for _, a := range args {
		v, ok := hostValue(a)
		if !ok {
			allHost = false
			break
		}
		goArgs = append(goArgs, v)
	}
	if allHost {
		return fmt.Sprintf(f, goArgs...)
	}
	if i.ps != nil && i.inInit == 0 {
		if bs, ok := i.symSprintf(f, args); ok {
			return mkstr(bs)
		}
	}
	return "fmt.Sprintf:" + f
}

func (i *interpreter) sprint(args []value, ln bool) value {
	var goArgs []interface{}
	for _, a := range args {
		v, ok := hostValue(a)
		if !ok {
			return "fmt.Sprint:<opaque>"
		}
		goArgs = append(goArgs, v)
	}
	if ln {
		return fmt.Sprintln(goArgs...)
	}
	return fmt.Sprint(goArgs...)
}

// hostValue converts an interface-boxed concrete basic value to a host value.
func hostValue(a value) (interface{}, bool) {
	it, ok := a.(iface)
	if !ok {
		return nil, false
	}
	if it.t == nil {
		return nil, true
	}
	switch v := it.v.(type) {
	case bool, int, int8, int16, int32, int64, uint, uint8, uint16, uint32, uint64, uintptr, float32, float64, string:
		if _, named := it.t.(*types.Named); named {
			// named types may have String()/Error() methods: stay opaque
			if b := basicOf(it.t); b == nil {
				return nil, false
			}
			if hasStringer(it.t) {
				return nil, false
			}
		}
		return v, true
	case []value:
		if sl, ok := it.t.Underlying().(*types.Slice); ok {
			if b := basicOf(sl.Elem()); b != nil && b.Kind() == types.Uint8 {
				buf := make([]byte, len(v))
				for k, e := range v {
					c, ok := e.(uint8)
					if !ok {
						return nil, false
					}
					buf[k] = c
				}
				return buf, true
			}
		}
	}
	return nil, false
}

func hasStringer(t types.Type) bool {
	ms := types.NewMethodSet(t)
	return ms.Lookup(nil, "String") != nil || ms.Lookup(nil, "Error") != nil
}

var _ = strings.Contains
var _ = sym.OpAdd

// extSortSlice models sort.Slice / sort.SliceStable as a stable insertion sort
// that calls the target's less function (a symbolic result forks the path).
func extSortSlice(fr *frame, args []value) value {
	x, ok := args[0].(iface).v.([]value)
	if !ok {
		panic(targetPanic{v: iface{t: types.Typ[types.String], v: "sort.Slice: argument is not a slice"}})
	}
	less := func(a, b int) bool {
		r := call(fr.i, fr, 0, args[1], []value{a, b})
		if t, ok := r.(*sym.Term); ok {
			return psOf(t).branch(t)
		}
		return r.(bool)
	}
	for a := 1; a < len(x); a++ {
		for b := a; b > 0 && less(b, b-1); b-- {
			va, vb := x[b], x[b-1]
			fr.i.set(&x[b], vb)
			fr.i.set(&x[b-1], va)
		}
	}
	return nil
}

func (i *interpreter) syncMap(p *value) *omap {
	if i.syncMaps == nil {
		i.syncMaps = map[*value]*omap{}
	}
	m := i.syncMaps[p]
	if m == nil {
		m = makeMap(types.NewInterfaceType(nil, nil), 0).(*omap)
		i.syncMaps[p] = m
	}
	return m
}

func (i *interpreter) waitGroup(p *value) *int {
	if i.waitGroups == nil {
		i.waitGroups = map[*value]*int{}
	}
	c := i.waitGroups[p]
	if c == nil {
		c = new(int)
		i.waitGroups[p] = c
	}
	return c
}

func extRegexpCompile(fr *frame, args []value) value {
	i := fr.i
	pat, ok := args[0].(string)
	fn := i.prog.ImportedPackage("regexp").Func("Compile")
	run := func() value {
		i.bypassExternal = "regexp.Compile"
		defer func() { i.bypassExternal = "" }()
		return callSSA(i, fr, 0, fn, args, nil)
	}
	if !ok {
		return run() // symbolic pattern: interpret as is
	}
	if v, hit := i.regexCache[pat]; hit {
		return v
	}
	i.inInit++
	r := func() value {
		defer func() { i.inInit-- }()
		return run()
	}()
	if i.regexCache == nil {
		i.regexCache = map[string]value{}
	}
	i.regexCache[pat] = r
	return r
}
