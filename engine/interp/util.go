package interp

import "go/types"

// mustDeref returns the element type of a pointer type (replacement for
// x/tools/internal/typeparams.MustDeref, which cannot be imported).
func mustDeref(t types.Type) types.Type {
	if p, ok := t.Underlying().(*types.Pointer); ok {
		return p.Elem()
	}
	panic("mustDeref: not a pointer: " + t.String())
}
