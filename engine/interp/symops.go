package interp

// Symbolic counterparts of the scalar operators, equality and strings.

import (
	"fmt"
	"go/token"
	"go/types"
	"math"

	"verif/engine/sym"
)

// sstr is a string with at least one symbolic byte. Immutable; concrete length.
type sstr []value

func isSym(v value) bool {
	switch v.(type) {
	case *sym.Term, sstr:
		return true
	}
	return false
}

func basicOf(t types.Type) *types.Basic {
	if t == nil {
		return nil
	}
	b, _ := t.Underlying().(*types.Basic)
	return b
}

func kindWidth(k types.BasicKind) int {
	switch k {
	case types.Bool, types.UntypedBool:
		return 0
	case types.Int8, types.Uint8:
		return 8
	case types.Int16, types.Uint16:
		return 16
	case types.Int32, types.Uint32, types.Float32, types.UntypedRune:
		return 32
	case types.Int, types.Uint, types.Uintptr, types.Int64, types.Uint64, types.Float64, types.UntypedInt, types.UntypedFloat:
		return 64
	}
	return -1
}

func isSignedKind(k types.BasicKind) bool {
	switch k {
	case types.Int, types.Int8, types.Int16, types.Int32, types.Int64, types.UntypedInt, types.UntypedRune:
		return true
	}
	return false
}

func isFloatKind(k types.BasicKind) bool {
	return k == types.Float32 || k == types.Float64 || k == types.UntypedFloat
}

// scalarTerm converts a concrete scalar (by dynamic type) or a term into a term.
func scalarTerm(cx *sym.Ctx, v value) (*sym.Term, bool) {
	switch v := v.(type) {
	case *sym.Term:
		return v, true
	case bool:
		return cx.Bool(v), true
	case int:
		return cx.Const(64, uint64(v)), true
	case int8:
		return cx.Const(8, uint64(v)), true
	case int16:
		return cx.Const(16, uint64(v)), true
	case int32:
		return cx.Const(32, uint64(v)), true
	case int64:
		return cx.Const(64, uint64(v)), true
	case uint:
		return cx.Const(64, uint64(v)), true
	case uint8:
		return cx.Const(8, uint64(v)), true
	case uint16:
		return cx.Const(16, uint64(v)), true
	case uint32:
		return cx.Const(32, uint64(v)), true
	case uint64:
		return cx.Const(64, v), true
	case uintptr:
		return cx.Const(64, uint64(v)), true
	case float32:
		return cx.Const(32, uint64(math.Float32bits(v))), true
	case float64:
		return cx.Const(64, math.Float64bits(v)), true
	}
	return nil, false
}

func mustTerm(cx *sym.Ctx, v value) *sym.Term {
	t, ok := scalarTerm(cx, v)
	if !ok {
		panic(fmt.Sprintf("mustTerm: %T is not a scalar", v))
	}
	return t
}

// concreteOf converts a constant term back into the Go value for basic kind k.
func concreteOf(k types.BasicKind, t *sym.Term) value {
	v := t.Val
	switch k {
	case types.Bool, types.UntypedBool:
		return v != 0
	case types.Int, types.UntypedInt:
		return int(int64(v))
	case types.Int8:
		return int8(v)
	case types.Int16:
		return int16(v)
	case types.Int32, types.UntypedRune:
		return int32(v)
	case types.Int64:
		return int64(v)
	case types.Uint:
		return uint(v)
	case types.Uint8:
		return uint8(v)
	case types.Uint16:
		return uint16(v)
	case types.Uint32:
		return uint32(v)
	case types.Uint64:
		return v
	case types.Uintptr:
		return uintptr(v)
	case types.Float32:
		return math.Float32frombits(uint32(v))
	case types.Float64, types.UntypedFloat:
		return math.Float64frombits(v)
	}
	panic(fmt.Sprintf("concreteOf: kind %v", k))
}

// norm returns a concrete Go value when the term is constant.
func norm(t types.Type, r *sym.Term) value {
	if r.IsConst() {
		if b := basicOf(t); b != nil {
			return concreteOf(b.Kind(), r)
		}
	}
	return r
}

func ctxOf(vs ...value) *sym.Ctx {
	for _, v := range vs {
		switch v := v.(type) {
		case *sym.Term:
			return v.C
		case sstr:
			for _, b := range v {
				if t, ok := b.(*sym.Term); ok {
					return t.C
				}
			}
		}
	}
	panic("ctxOf: no symbolic operand")
}

var cmpOps = map[token.Token]bool{token.LSS: true, token.LEQ: true, token.GTR: true, token.GEQ: true, token.EQL: true, token.NEQ: true}

// symBinop evaluates x op y when at least one operand is symbolic.
func symBinop(op token.Token, tx, ty types.Type, x, y value) value {
	// strings
	if isStringLike(x) && isStringLike(y) {
		return symStringOp(op, x, y)
	}
	b := basicOf(tx)
	if b == nil {
		panic(fmt.Sprintf("symBinop: non-basic operand type %v for %s", tx, op))
	}
	cx := ctxOf(x, y)
	k := b.Kind()
	xt, yt := mustTerm(cx, x), mustTerm(cx, y)
	boolT := types.Typ[types.Bool]

	if k == types.Bool || k == types.UntypedBool {
		switch op {
		case token.EQL:
			return norm(boolT, cx.Eq(xt, yt))
		case token.NEQ:
			return norm(boolT, cx.Not(cx.Eq(xt, yt)))
		}
		panic("symBinop: bad bool op " + op.String())
	}

	if isFloatKind(k) {
		switch op {
		case token.ADD:
			return norm(tx, cx.FArith(sym.OpFAdd, xt, yt))
		case token.SUB:
			return norm(tx, cx.FArith(sym.OpFSub, xt, yt))
		case token.MUL:
			return norm(tx, cx.FArith(sym.OpFMul, xt, yt))
		case token.QUO:
			return norm(tx, cx.FArith(sym.OpFDiv, xt, yt))
		case token.LSS:
			return norm(boolT, cx.FCmp(sym.OpFLt, xt, yt))
		case token.LEQ:
			return norm(boolT, cx.FCmp(sym.OpFLe, xt, yt))
		case token.GTR:
			return norm(boolT, cx.FCmp(sym.OpFLt, yt, xt))
		case token.GEQ:
			return norm(boolT, cx.FCmp(sym.OpFLe, yt, xt))
		case token.EQL:
			return norm(boolT, cx.FCmp(sym.OpFEq, xt, yt))
		case token.NEQ:
			return norm(boolT, cx.Not(cx.FCmp(sym.OpFEq, xt, yt)))
		}
		panic("symBinop: bad float op " + op.String())
	}

	signed := isSignedKind(k)
	w := xt.W
	switch op {
	case token.ADD:
		return norm(tx, cx.Bin(sym.OpAdd, xt, yt))
	case token.SUB:
		return norm(tx, cx.Bin(sym.OpSub, xt, yt))
	case token.MUL:
		return norm(tx, cx.Bin(sym.OpMul, xt, yt))
	case token.AND:
		return norm(tx, cx.Bin(sym.OpBvAnd, xt, yt))
	case token.OR:
		return norm(tx, cx.Bin(sym.OpBvOr, xt, yt))
	case token.XOR:
		return norm(tx, cx.Bin(sym.OpBvXor, xt, yt))
	case token.AND_NOT:
		return norm(tx, cx.Bin(sym.OpBvAnd, xt, cx.BvNot(yt)))
	case token.QUO, token.REM:
		ps := cx.User.(*pathState)
		if ps.branch(cx.Eq(yt, cx.Const(w, 0))) {
			panic(runtimeErr("integer divide by zero"))
		}
		var o sym.Op
		switch {
		case op == token.QUO && signed:
			o = sym.OpSDiv
		case op == token.QUO:
			o = sym.OpUDiv
		case signed:
			o = sym.OpSRem
		default:
			o = sym.OpURem
		}
		return norm(tx, cx.Bin(o, xt, yt))
	case token.SHL, token.SHR:
		ps := cx.User.(*pathState)
		ysigned := false
		if yb := basicOf(ty); yb != nil {
			ysigned = isSignedKind(yb.Kind())
		} else if _, isT := y.(*sym.Term); !isT {
			_, ok := asUnsigned(y)
			ysigned = !ok
			if ysigned {
				panic(runtimeErr("negative shift amount"))
			}
		}
		if ysigned {
			if ps.branch(cx.Cmp(sym.OpSlt, yt, cx.Const(yt.W, 0))) {
				panic(runtimeErr("negative shift amount"))
			}
		}
		var o sym.Op
		switch {
		case op == token.SHL:
			o = sym.OpShl
		case signed:
			o = sym.OpAShr
		default:
			o = sym.OpLShr
		}
		if yt.W <= w {
			return norm(tx, cx.Bin(o, xt, cx.Zext(yt, w)))
		}
		// shift count wider than the operand
		small := cx.Cmp(sym.OpUlt, yt, cx.Const(yt.W, uint64(w)))
		sh := cx.Bin(o, xt, cx.Extract(yt, w-1, 0))
		var over *sym.Term
		if o == sym.OpAShr {
			over = cx.Bin(sym.OpAShr, xt, cx.Const(w, uint64(w-1)))
		} else {
			over = cx.Const(w, 0)
		}
		return norm(tx, cx.Ite(small, sh, over))
	case token.EQL:
		return norm(boolT, cx.Eq(xt, yt))
	case token.NEQ:
		return norm(boolT, cx.Not(cx.Eq(xt, yt)))
	case token.LSS, token.LEQ, token.GTR, token.GEQ:
		a, c := xt, yt
		if op == token.GTR || op == token.GEQ {
			a, c = yt, xt
		}
		strict := op == token.LSS || op == token.GTR
		var o sym.Op
		switch {
		case signed && strict:
			o = sym.OpSlt
		case signed:
			o = sym.OpSle
		case strict:
			o = sym.OpUlt
		default:
			o = sym.OpUle
		}
		return norm(boolT, cx.Cmp(o, a, c))
	}
	panic(fmt.Sprintf("symBinop: invalid op %s on %v", op, tx))
}

func symUnop(op token.Token, t types.Type, x *sym.Term) value {
	cx := x.C
	switch op {
	case token.NOT:
		return norm(types.Typ[types.Bool], cx.Not(x))
	case token.XOR:
		return norm(t, cx.BvNot(x))
	case token.SUB:
		if b := basicOf(t); b != nil && isFloatKind(b.Kind()) {
			return norm(t, cx.Bin(sym.OpBvXor, x, cx.Const(x.W, uint64(1)<<uint(x.W-1))))
		}
		return norm(t, cx.Neg(x))
	}
	panic("symUnop: " + op.String())
}

// symConv converts symbolic scalar x from src to dst basic types.
func symConv(dst, src *types.Basic, x *sym.Term) value {
	cx := x.C
	dk, sk := dst.Kind(), src.Kind()
	dw := kindWidth(dk)
	if dw < 0 {
		unsupported("conversion of symbolic %v to %v", src, dst)
	}
	switch {
	case isFloatKind(sk) && isFloatKind(dk):
		return norm(dst, cx.FToF(x, dw))
	case isFloatKind(sk):
		return norm(dst, cx.FToInt(x, dw, isSignedKind(dk)))
	case isFloatKind(dk):
		var wide *sym.Term
		if isSignedKind(sk) {
			wide = cx.Sext(x, 64)
		} else {
			wide = cx.Zext(x, 64)
		}
		return norm(dst, cx.IntToF(wide, dw, isSignedKind(sk)))
	default:
		if dw <= x.W {
			return norm(dst, cx.Extract(x, dw-1, 0))
		}
		if isSignedKind(sk) {
			return norm(dst, cx.Sext(x, dw))
		}
		return norm(dst, cx.Zext(x, dw))
	}
}

// ---- equality -----------------------------------------------------------------

// symEq returns x == y for type t as a bool or a Bool term.
func symEq(t types.Type, x, y value) value {
	switch x := x.(type) {
	case structure:
		y := y.(structure)
		st := t.Underlying().(*types.Struct)
		var acc value = true
		for k := 0; k < st.NumFields(); k++ {
			if f := st.Field(k); f.Name() != "_" {
				acc = andV(acc, symEq(f.Type(), x[k], y[k]))
				if acc == false {
					return false
				}
			}
		}
		return acc
	case array:
		y := y.(array)
		et := t.Underlying().(*types.Array).Elem()
		var acc value = true
		for k := range x {
			acc = andV(acc, symEq(et, x[k], y[k]))
			if acc == false {
				return false
			}
		}
		return acc
	case iface:
		y := y.(iface)
		if !sameType(x.t, y.t) {
			return false
		}
		if x.t == nil {
			return true
		}
		return symEq(x.t, x.v, y.v)
	}
	if isStringLike(x) && isStringLike(y) && (isSym(x) || isSym(y)) {
		return symStringOp(token.EQL, x, y)
	}
	if isSym(x) || isSym(y) {
		return symBinop(token.EQL, t, t, x, y)
	}
	return equalsConcrete(t, x, y)
}

func andV(a, b value) value {
	if a == false || b == false {
		return false
	}
	if a == true {
		return b
	}
	if b == true {
		return a
	}
	at, bt := a.(*sym.Term), b.(*sym.Term)
	return norm(types.Typ[types.Bool], at.C.And(at, bt))
}

func notV(a value) value {
	switch a := a.(type) {
	case bool:
		return !a
	case *sym.Term:
		return norm(types.Typ[types.Bool], a.C.Not(a))
	}
	panic("notV")
}

// decide turns a bool-or-term into a Go bool, forking if necessary.
func decide(v value) bool {
	switch v := v.(type) {
	case bool:
		return v
	case *sym.Term:
		return psOf(v).branch(v)
	}
	panic(fmt.Sprintf("decide: %T", v))
}

func (i *interpreter) decideEq(t types.Type, x, y value) bool {
	return decide(symEq(t, x, y))
}

// ---- strings --------------------------------------------------------------------

func isStringLike(v value) bool {
	switch v.(type) {
	case string, sstr:
		return true
	}
	return false
}

func strToValues(s string) []value {
	r := make([]value, len(s))
	for k := 0; k < len(s); k++ {
		r[k] = s[k]
	}
	return r
}

func strBytes(v value) []value {
	switch v := v.(type) {
	case string:
		return strToValues(v)
	case sstr:
		return []value(v)
	}
	panic(fmt.Sprintf("strBytes: %T", v))
}

// mkstr builds a string value from bytes; fully concrete bytes give a Go string.
func mkstr(bs []value) value {
	conc := true
	for _, b := range bs {
		if _, ok := b.(uint8); !ok {
			conc = false
			break
		}
	}
	if conc {
		buf := make([]byte, len(bs))
		for k, b := range bs {
			buf[k] = b.(uint8)
		}
		return string(buf)
	}
	cp := make(sstr, len(bs))
	copy(cp, bs)
	return cp
}

func strLen(v value) int {
	switch v := v.(type) {
	case string:
		return len(v)
	case sstr:
		return len(v)
	}
	panic("strLen")
}

func symStringOp(op token.Token, x, y value) value {
	a, b := strBytes(x), strBytes(y)
	if op == token.ADD {
		r := make([]value, 0, len(a)+len(b))
		r = append(r, a...)
		r = append(r, b...)
		return mkstr(r)
	}
	cx := ctxOf(x, y)
	boolT := types.Typ[types.Bool]
	switch op {
	case token.EQL, token.NEQ:
		var r *sym.Term
		if len(a) != len(b) {
			r = cx.False()
		} else {
			r = cx.True()
			for k := range a {
				r = cx.And(r, cx.Eq(mustTerm(cx, a[k]), mustTerm(cx, b[k])))
			}
		}
		if op == token.NEQ {
			r = cx.Not(r)
		}
		return norm(boolT, r)
	case token.LSS, token.LEQ, token.GTR, token.GEQ:
		if op == token.GTR || op == token.GEQ {
			a, b = b, a
		}
		strict := op == token.LSS || op == token.GTR
		n := len(a)
		if len(b) < n {
			n = len(b)
		}
		// tail: common prefix equal
		var r *sym.Term
		if strict {
			r = cx.Bool(len(a) < len(b))
		} else {
			r = cx.Bool(len(a) <= len(b))
		}
		for k := n - 1; k >= 0; k-- {
			ak, bk := mustTerm(cx, a[k]), mustTerm(cx, b[k])
			r = cx.Ite(cx.Cmp(sym.OpUlt, ak, bk), cx.True(), cx.Ite(cx.Eq(ak, bk), r, cx.False()))
		}
		return norm(boolT, r)
	}
	panic("symStringOp: " + op.String())
}

// decodeRune decodes the first UTF-8 sequence of bs by running the real
// unicode/utf8.DecodeRune symbolically.
func (i *interpreter) decodeRune(bs []value) (value, int) {
	pkg := i.prog.ImportedPackage("unicode/utf8")
	if pkg == nil {
		unsupported("unicode/utf8 not in program (needed for symbolic string iteration)")
	}
	res := callSSA(i, nil, 0, pkg.Func("DecodeRune"), []value{bs}, nil).(tuple)
	size := res[1]
	if t, ok := size.(*sym.Term); ok {
		return res[0], int(psOf(t).concretize(t, "rune size"))
	}
	return res[0], size.(int)
}

type sstrIter struct {
	i   *interpreter
	s   []value
	pos int
}

func (it *sstrIter) next() tuple {
	if it.pos >= len(it.s) {
		return tuple{false, nil, nil}
	}
	r, n := it.i.decodeRune(it.s[it.pos:])
	k := it.pos
	it.pos += n
	return tuple{true, k, r}
}

// encodeRune returns the UTF-8 bytes of a (possibly symbolic) rune.
func (i *interpreter) encodeRune(r value) []value {
	pkg := i.prog.ImportedPackage("unicode/utf8")
	if pkg == nil {
		unsupported("unicode/utf8 not in program")
	}
	res := callSSA(i, nil, 0, pkg.Func("AppendRune"), []value{[]value(nil), r}, nil)
	return res.([]value)
}
