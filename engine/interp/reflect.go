// Copyright 2013 The Go Authors. All rights reserved.
// Use of this source code is governed by a BSD-style
// license that can be found in the LICENSE file.

package interp

// Emulated "reflect" package.
//
// We completely replace the built-in "reflect" package.
// The only thing clients can depend upon are that reflect.Type is an
// interface and reflect.Value is an (opaque) struct.

import (
	"fmt"
	"go/token"
	"go/types"
	"reflect"
	"sync"
	"unsafe"

	"golang.org/x/tools/go/ssa"

	"verif/engine/sym"
)

type opaqueType struct {
	types.Type
	name string
}

func (t *opaqueType) String() string { return t.name }

// A bogus "reflect" type-checker package.  Shared across interpreters.
var reflectTypesPackage = types.NewPackage("reflect", "reflect")

// rtype is the concrete type the interpreter uses to implement the
// reflect.Type interface.
//
// type rtype <opaque>
var rtypeType = makeNamedType("rtype", &opaqueType{nil, "rtype"})

// error is an (interpreted) named type whose underlying type is string.
// The interpreter uses it for all implementations of the built-in error
// interface that it creates.
// We put it in the "reflect" package for expedience.
//
// type error string
var errorType = makeNamedType("error", &opaqueType{nil, "error"})

func makeNamedType(name string, underlying types.Type) *types.Named {
	obj := types.NewTypeName(token.NoPos, reflectTypesPackage, name, nil)
	return types.NewNamed(obj, underlying, nil)
}

// A reflect.Value is structure{rtype, value, addr}: addr (a *value) is set for
// addressable Values, whose current contents are always read through it.
func makeReflectValue(t types.Type, v value) value {
	return structure{rtype{t}, v, (*value)(nil)}
}

func makeReflectValueAddr(t types.Type, addr *value) value {
	return structure{rtype{t}, nil, addr}
}

// Given a reflect.Value, returns its rtype.
func rV2T(v value) rtype {
	rt, ok := v.(structure)[0].(rtype)
	if !ok {
		panic(targetPanic{iface{t: errorType, v: "reflect: call of method on zero Value"}})
	}
	return rt
}

func rVAddr(v value) *value {
	s := v.(structure)
	if len(s) > 2 {
		if a, ok := s[2].(*value); ok {
			return a
		}
	}
	return nil
}

// Given a reflect.Value, returns the underlying interpreter value.
func rV2V(v value) value {
	s := v.(structure)
	if a := rVAddr(v); a != nil {
		return load(s[0].(rtype).t, a)
	}
	return s[1]
}

func rVMustAddr(v value, what string) *value {
	a := rVAddr(v)
	if a == nil {
		panic(targetPanic{iface{t: errorType, v: "reflect: " + what + " using unaddressable value"}})
	}
	return a
}

// makeReflectType boxes up an rtype in a reflect.Type interface.
func makeReflectType(rt rtype) value {
	return iface{rtypeType, rt}
}

func ext۰reflect۰rtype۰Bits(fr *frame, args []value) value {
	// Signature: func (t reflect.rtype) int
	rt := args[0].(rtype).t
	basic, ok := rt.Underlying().(*types.Basic)
	if !ok {
		panic(fmt.Sprintf("reflect.Type.Bits(%T): non-basic type", rt))
	}
	return int(fr.i.sizes.Sizeof(basic)) * 8
}

func ext۰reflect۰rtype۰Elem(fr *frame, args []value) value {
	// Signature: func (t reflect.rtype) reflect.Type
	return makeReflectType(rtype{args[0].(rtype).t.Underlying().(interface {
		Elem() types.Type
	}).Elem()})
}

func ext۰reflect۰rtype۰Field(fr *frame, args []value) value {
	// Signature: func (t reflect.rtype, i int) reflect.StructField
	st := args[0].(rtype).t.Underlying().(*types.Struct)
	i := args[1].(int)
	f := st.Field(i)
	pkgPath := "" // empty for exported fields, as in package reflect
	if !f.Exported() && f.Pkg() != nil {
		pkgPath = f.Pkg().Path()
	}
	return structure{
		f.Name(),
		pkgPath,
		makeReflectType(rtype{f.Type()}),
		st.Tag(i),
		0, // offset: not modelled
		[]value{i},
		f.Anonymous(),
	}
}

func ext۰reflect۰rtype۰In(fr *frame, args []value) value {
	// Signature: func (t reflect.rtype, i int) int
	i := args[1].(int)
	return makeReflectType(rtype{args[0].(rtype).t.(*types.Signature).Params().At(i).Type()})
}

func ext۰reflect۰rtype۰Kind(fr *frame, args []value) value {
	// Signature: func (t reflect.rtype) uint
	return uint(reflectKind(args[0].(rtype).t))
}

func ext۰reflect۰rtype۰NumField(fr *frame, args []value) value {
	// Signature: func (t reflect.rtype) int
	return args[0].(rtype).t.Underlying().(*types.Struct).NumFields()
}

func ext۰reflect۰rtype۰NumIn(fr *frame, args []value) value {
	// Signature: func (t reflect.rtype) int
	return args[0].(rtype).t.Underlying().(*types.Signature).Params().Len()
}

func ext۰reflect۰rtype۰NumMethod(fr *frame, args []value) value {
	// Signature: func (t reflect.rtype) int
	return fr.i.prog.MethodSets.MethodSet(args[0].(rtype).t).Len()
}

func ext۰reflect۰rtype۰NumOut(fr *frame, args []value) value {
	// Signature: func (t reflect.rtype) int
	return args[0].(rtype).t.Underlying().(*types.Signature).Results().Len()
}

func ext۰reflect۰rtype۰Out(fr *frame, args []value) value {
	// Signature: func (t reflect.rtype, i int) int
	i := args[1].(int)
	return makeReflectType(rtype{args[0].(rtype).t.Underlying().(*types.Signature).Results().At(i).Type()})
}

func ext۰reflect۰rtype۰Size(fr *frame, args []value) value {
	// Signature: func (t reflect.rtype) uintptr
	return uintptr(fr.i.sizes.Sizeof(args[0].(rtype).t))
}

func ext۰reflect۰rtype۰String(fr *frame, args []value) value {
	// Signature: func (t reflect.rtype) string
	return args[0].(rtype).t.String()
}

func ext۰reflect۰New(fr *frame, args []value) value {
	// Signature: func (t reflect.Type) reflect.Value
	t := args[0].(iface).v.(rtype).t
	alloc := zero(t)
	return makeReflectValue(types.NewPointer(t), &alloc)
}

func ext۰reflect۰SliceOf(fr *frame, args []value) value {
	// Signature: func (t reflect.rtype) Type
	return makeReflectType(rtype{types.NewSlice(args[0].(iface).v.(rtype).t)})
}

func ext۰reflect۰PointerTo(fr *frame, args []value) value {
	// Signature: func (t reflect.Type) reflect.Type
	return makeReflectType(rtype{types.NewPointer(args[0].(iface).v.(rtype).t)})
}

func ext۰reflect۰MapOf(fr *frame, args []value) value {
	// Signature: func (key, elem reflect.Type) reflect.Type
	return makeReflectType(rtype{types.NewMap(args[0].(iface).v.(rtype).t, args[1].(iface).v.(rtype).t)})
}

func ext۰reflect۰ArrayOf(fr *frame, args []value) value {
	// Signature: func (length int, elem reflect.Type) reflect.Type
	return makeReflectType(rtype{types.NewArray(args[1].(iface).v.(rtype).t, asInt64(args[0]))})
}

func ext۰reflect۰rtype۰Key(fr *frame, args []value) value {
	m, ok := args[0].(rtype).t.Underlying().(*types.Map)
	if !ok {
		panic(targetPanic{iface{t: errorType, v: "reflect: Key of non-map type " + args[0].(rtype).t.String()}})
	}
	return makeReflectType(rtype{m.Key()})
}

func ext۰reflect۰rtype۰Len(fr *frame, args []value) value {
	a, ok := args[0].(rtype).t.Underlying().(*types.Array)
	if !ok {
		panic(targetPanic{iface{t: errorType, v: "reflect: Len of non-array type " + args[0].(rtype).t.String()}})
	}
	return int(a.Len())
}

func ext۰reflect۰rtype۰Name(fr *frame, args []value) value {
	switch t := types.Unalias(args[0].(rtype).t).(type) {
	case *types.Named:
		return t.Obj().Name()
	case *types.Basic:
		return t.Name()
	}
	return ""
}

func ext۰reflect۰rtype۰PkgPath(fr *frame, args []value) value {
	if t, ok := types.Unalias(args[0].(rtype).t).(*types.Named); ok && t.Obj().Pkg() != nil {
		return t.Obj().Pkg().Path()
	}
	return ""
}

func ext۰reflect۰rtype۰Comparable(fr *frame, args []value) value {
	return types.Comparable(args[0].(rtype).t)
}

func ext۰reflect۰rtype۰AssignableTo(fr *frame, args []value) value {
	return types.AssignableTo(args[0].(rtype).t, args[1].(iface).v.(rtype).t)
}

func ext۰reflect۰rtype۰ConvertibleTo(fr *frame, args []value) value {
	return types.ConvertibleTo(args[0].(rtype).t, args[1].(iface).v.(rtype).t)
}

func ext۰reflect۰rtype۰Implements(fr *frame, args []value) value {
	it, ok := args[1].(iface).v.(rtype).t.Underlying().(*types.Interface)
	if !ok {
		panic(targetPanic{iface{t: errorType, v: "reflect: non-interface type passed to Type.Implements"}})
	}
	return types.Implements(args[0].(rtype).t, it)
}

func ext۰reflect۰MakeSlice(fr *frame, args []value) value {
	// Signature: func (typ reflect.Type, len, cap int) reflect.Value
	t := args[0].(iface).v.(rtype).t
	st, ok := t.Underlying().(*types.Slice)
	if !ok {
		panic(targetPanic{iface{t: errorType, v: "reflect.MakeSlice of non-slice type"}})
	}
	n := fr.i.concreteLen(args[1], st.Elem(), "reflect.MakeSlice len")
	c := fr.i.concreteLen(args[2], st.Elem(), "reflect.MakeSlice cap")
	if n < 0 || c < n {
		panic(targetPanic{iface{t: errorType, v: "reflect.MakeSlice: len > cap or negative"}})
	}
	fr.i.chargeAlloc(uint64(c), st.Elem())
	sl := make([]value, c)
	for k := range sl {
		sl[k] = zero(st.Elem())
	}
	return makeReflectValue(t, sl[:n])
}

func ext۰reflect۰MakeMap(fr *frame, args []value) value {
	// Signature: func (typ reflect.Type[, n int]) reflect.Value
	t := args[0].(iface).v.(rtype).t
	mt, ok := t.Underlying().(*types.Map)
	if !ok {
		panic(targetPanic{iface{t: errorType, v: "reflect.MakeMap of non-map type"}})
	}
	return makeReflectValue(t, makeMap(mt.Key(), 0))
}

func ext۰reflect۰Append(fr *frame, args []value) value {
	// Signature: func (s reflect.Value, x ...reflect.Value) reflect.Value
	t := rV2T(args[0]).t
	st, ok := t.Underlying().(*types.Slice)
	if !ok {
		panic(targetPanic{iface{t: errorType, v: "reflect.Append to non-slice"}})
	}
	dst, _ := rV2V(args[0]).([]value)
	var src []value
	_, elemIsIface := st.Elem().Underlying().(*types.Interface)
	for _, x := range args[1].([]value) {
		v := rV2V(x)
		if elemIsIface {
			if _, already := v.(iface); !already {
				v = iface{t: rV2T(x).t, v: v}
			}
		}
		src = append(src, copyVal(v))
	}
	n := len(dst) + len(src)
	var r []value
	if n <= cap(dst) {
		r = dst[:n]
		for k, v := range src {
			fr.i.set(&r[len(dst)+k], v)
		}
	} else {
		fr.i.chargeAlloc(uint64(len(src)), st.Elem())
		ncap := fr.i.growCap(cap(dst), n, st.Elem())
		r = make([]value, n, ncap)
		copy(r, dst)
		copy(r[len(dst):], src)
		z := r[n:ncap]
		for k := range z {
			z[k] = zero(st.Elem())
		}
	}
	return makeReflectValue(t, r)
}

func ext۰reflect۰Value۰SetMapIndex(fr *frame, args []value) value {
	// Signature: func (v reflect.Value, key, elem reflect.Value)
	for _, a := range args[:2] {
		if rt, valid := a.(structure)[0].(rtype); !valid || rt.t == nil {
			panic(targetPanic{iface{t: errorType, v: "reflect: call of reflect.Value.SetMapIndex on zero Value"}})
		}
	}
	m, ok := rV2V(args[0]).(*omap)
	if !ok || m == nil {
		panic(targetPanic{iface{t: errorType, v: "assignment to entry in nil map"}})
	}
	mt := rV2T(args[0]).t.Underlying().(*types.Map)
	wrap := func(t types.Type, x value) value {
		v := rV2V(x)
		if _, isIface := t.Underlying().(*types.Interface); isIface {
			if _, already := v.(iface); !already {
				v = iface{t: rV2T(x).t, v: v}
			}
		}
		return copyVal(v)
	}
	k := wrap(mt.Key(), args[1])
	if rt, valid := args[2].(structure)[0].(rtype); !valid || rt.t == nil {
		m.delete(fr.i, k)
		return nil
	}
	m.insert(fr.i, k, wrap(mt.Elem(), args[2]))
	return nil
}

func ext۰reflect۰Value۰Slice(fr *frame, args []value) value {
	// Signature: func (v reflect.Value, i, j int) reflect.Value
	lo, hi := int(asInt64(args[1])), int(asInt64(args[2]))
	t := rV2T(args[0]).t
	switch v := rV2V(args[0]).(type) {
	case []value:
		if lo < 0 || hi < lo || hi > cap(v) {
			panic(targetPanic{iface{t: errorType, v: "reflect.Value.Slice: slice index out of bounds"}})
		}
		return makeReflectValue(t, v[lo:hi])
	case array:
		a := rVAddr(args[0])
		if a == nil {
			panic(targetPanic{iface{t: errorType, v: "reflect.Value.Slice: slice of unaddressable array"}})
		}
		arr := (*a).(array)
		if lo < 0 || hi < lo || hi > len(arr) {
			panic(targetPanic{iface{t: errorType, v: "reflect.Value.Slice: slice index out of bounds"}})
		}
		return makeReflectValue(types.NewSlice(t.Underlying().(*types.Array).Elem()), []value(arr)[lo:hi])
	case string:
		if lo < 0 || hi < lo || hi > len(v) {
			panic(targetPanic{iface{t: errorType, v: "reflect.Value.Slice: string slice index out of bounds"}})
		}
		return makeReflectValue(t, v[lo:hi])
	}
	panic(targetPanic{iface{t: errorType, v: "reflect: call of reflect.Value.Slice on " + t.String() + " Value"}})
}

// MapRange / MapIter: the iterator state lives beside the *MapIter it returns.
type mapIterState struct {
	it       omapIter
	kt, vt   types.Type
	key, val value
	valid    bool
}

func ext۰reflect۰Value۰MapRange(fr *frame, args []value) value {
	m, ok := rV2V(args[0]).(*omap)
	mt, isMap := rV2T(args[0]).t.Underlying().(*types.Map)
	if !ok || !isMap {
		panic(targetPanic{iface{t: errorType, v: "reflect: call of reflect.Value.MapRange on non-map Value"}})
	}
	var cell value = structure{}
	p := &cell
	if fr.i.mapIters == nil {
		fr.i.mapIters = map[*value]*mapIterState{}
	}
	fr.i.mapIters[p] = &mapIterState{it: omapIter{m: m}, kt: mt.Key(), vt: mt.Elem()}
	return p
}

func (i *interpreter) mapIter(v value) *mapIterState {
	st := i.mapIters[v.(*value)]
	if st == nil {
		panic(targetPanic{iface{t: errorType, v: "reflect: MapIter not obtained from MapRange"}})
	}
	return st
}

func ext۰reflect۰MapIter۰Next(fr *frame, args []value) value {
	st := fr.i.mapIter(args[0])
	old := *st
	fr.i.logUndo(func() { *st = old })
	r := st.it.next()
	st.valid = r[0].(bool)
	st.key, st.val = r[1], r[2]
	return st.valid
}

func ext۰reflect۰MapIter۰Key(fr *frame, args []value) value {
	st := fr.i.mapIter(args[0])
	if !st.valid {
		panic(targetPanic{iface{t: errorType, v: "MapIter.Key called before Next"}})
	}
	return makeReflectValue(st.kt, st.key)
}

func ext۰reflect۰MapIter۰Value(fr *frame, args []value) value {
	st := fr.i.mapIter(args[0])
	if !st.valid {
		panic(targetPanic{iface{t: errorType, v: "MapIter.Value called before Next"}})
	}
	return makeReflectValue(st.vt, st.val)
}

func ext۰reflect۰TypeOf(fr *frame, args []value) value {
	// Signature: func (t reflect.rtype) Type
	return makeReflectType(rtype{args[0].(iface).t})
}

func ext۰reflect۰ValueOf(fr *frame, args []value) value {
	// Signature: func (interface{}) reflect.Value
	itf := args[0].(iface)
	return makeReflectValue(itf.t, itf.v)
}

func ext۰reflect۰Zero(fr *frame, args []value) value {
	// Signature: func (t reflect.Type) reflect.Value
	t := args[0].(iface).v.(rtype).t
	return makeReflectValue(t, zero(t))
}

func reflectKind(t types.Type) reflect.Kind {
	switch t := t.(type) {
	case *types.Named, *types.Alias:
		return reflectKind(t.Underlying())
	case *types.Basic:
		switch t.Kind() {
		case types.Bool:
			return reflect.Bool
		case types.Int:
			return reflect.Int
		case types.Int8:
			return reflect.Int8
		case types.Int16:
			return reflect.Int16
		case types.Int32:
			return reflect.Int32
		case types.Int64:
			return reflect.Int64
		case types.Uint:
			return reflect.Uint
		case types.Uint8:
			return reflect.Uint8
		case types.Uint16:
			return reflect.Uint16
		case types.Uint32:
			return reflect.Uint32
		case types.Uint64:
			return reflect.Uint64
		case types.Uintptr:
			return reflect.Uintptr
		case types.Float32:
			return reflect.Float32
		case types.Float64:
			return reflect.Float64
		case types.Complex64:
			return reflect.Complex64
		case types.Complex128:
			return reflect.Complex128
		case types.String:
			return reflect.String
		case types.UnsafePointer:
			return reflect.UnsafePointer
		}
	case *types.Array:
		return reflect.Array
	case *types.Chan:
		return reflect.Chan
	case *types.Signature:
		return reflect.Func
	case *types.Interface:
		return reflect.Interface
	case *types.Map:
		return reflect.Map
	case *types.Pointer:
		return reflect.Ptr
	case *types.Slice:
		return reflect.Slice
	case *types.Struct:
		return reflect.Struct
	}
	panic(fmt.Sprint("unexpected type: ", t))
}

func ext۰reflect۰Value۰Kind(fr *frame, args []value) value {
	// Signature: func (reflect.Value) uint
	return uint(reflectKind(rV2T(args[0]).t))
}

func ext۰reflect۰Value۰String(fr *frame, args []value) value {
	// Signature: func (reflect.Value) string
	switch v := rV2V(args[0]).(type) {
	case string:
		return v
	case sstr:
		return v
	}
	if rt, ok := args[0].(structure)[0].(rtype); !ok || rt.t == nil {
		return "<invalid Value>"
	}
	return "<" + rV2T(args[0]).t.String() + " Value>"
}

func ext۰reflect۰Value۰Bytes(fr *frame, args []value) value {
	// Signature: func (reflect.Value) []byte
	switch v := rV2V(args[0]).(type) {
	case []value:
		return v
	case array:
		if a := rVAddr(args[0]); a != nil {
			return []value((*a).(array))
		}
		panic(targetPanic{iface{t: errorType, v: "reflect.Value.Bytes of unaddressable byte array"}})
	}
	panic(targetPanic{iface{t: errorType, v: "reflect: call of reflect.Value.Bytes on " + rV2T(args[0]).t.String() + " Value"}})
}

func ext۰reflect۰Value۰Type(fr *frame, args []value) value {
	// Signature: func (reflect.Value) reflect.Type
	return makeReflectType(rV2T(args[0]))
}

func ext۰reflect۰Value۰Uint(fr *frame, args []value) value {
	// Signature: func (reflect.Value) uint64
	if t, ok := rV2V(args[0]).(*sym.Term); ok {
		return conv(fr.i, types.Typ[types.Uint64], rV2T(args[0]).t, t)
	}
	switch v := rV2V(args[0]).(type) {
	case uint:
		return uint64(v)
	case uint8:
		return uint64(v)
	case uint16:
		return uint64(v)
	case uint32:
		return uint64(v)
	case uint64:
		return uint64(v)
	case uintptr:
		return uint64(v)
	}
	panic("reflect.Value.Uint")
}

func ext۰reflect۰Value۰Len(fr *frame, args []value) value {
	// Signature: func (reflect.Value) int
	switch v := rV2V(args[0]).(type) {
	case string:
		return len(v)
	case array:
		return len(v)
	case chan value:
		return cap(v)
	case []value:
		return len(v)
	case *omap:
		return v.len()
	case sstr:
		return len(v)
	default:
		panic(fmt.Sprintf("reflect.(Value).Len(%v)", v))
	}
}

func ext۰reflect۰Value۰MapIndex(fr *frame, args []value) value {
	// Signature: func (reflect.Value) Value
	k := rV2V(args[1])
	switch m := rV2V(args[0]).(type) {
	case *omap:
		if v, ok := m.lookup(fr.i, k); ok {
			return makeReflectValue(rV2T(args[0]).t.Underlying().(*types.Map).Elem(), v)
		}

	default:
		panic(fmt.Sprintf("(reflect.Value).MapIndex(%T, %T)", m, k))
	}
	return makeReflectValue(nil, nil)
}

func ext۰reflect۰Value۰MapKeys(fr *frame, args []value) value {
	// Signature: func (reflect.Value) []Value
	var keys []value
	tKey := rV2T(args[0]).t.Underlying().(*types.Map).Key()
	switch v := rV2V(args[0]).(type) {
	case *omap:
		if v != nil {
			for _, e := range v.entries {
				if e.alive {
					keys = append(keys, makeReflectValue(tKey, e.key))
				}
			}
		}

	default:
		panic(fmt.Sprintf("(reflect.Value).MapKeys(%T)", v))
	}
	return keys
}

func ext۰reflect۰Value۰NumField(fr *frame, args []value) value {
	// Signature: func (reflect.Value) int
	return len(rV2V(args[0]).(structure))
}

func ext۰reflect۰Value۰NumMethod(fr *frame, args []value) value {
	// Signature: func (reflect.Value) int
	return fr.i.prog.MethodSets.MethodSet(rV2T(args[0]).t).Len()
}

func ext۰reflect۰Value۰Pointer(fr *frame, args []value) value {
	// Signature: func (v reflect.Value) uintptr
	switch v := rV2V(args[0]).(type) {
	case *value:
		return cellAddr(v)
	case chan value:
		return reflect.ValueOf(v).Pointer()
	case []value:
		if cap(v) > 0 {
			return cellAddr(&v[:1][0])
		}
		return reflect.ValueOf(v).Pointer()
	case *omap:
		return uintptr(unsafe.Pointer(v))
	case *ssa.Function:
		return uintptr(unsafe.Pointer(v))
	case *closure:
		return uintptr(unsafe.Pointer(v))
	default:
		panic(fmt.Sprintf("reflect.(Value).Pointer(%T)", v))
	}
}

func ext۰reflect۰Value۰Index(fr *frame, args []value) value {
	// Signature: func (v reflect.Value, i int) Value
	i := args[1].(int)
	t := rV2T(args[0]).t.Underlying()
	if a := rVAddr(args[0]); a != nil {
		if arr, ok := (*a).(array); ok {
			if i < 0 || i >= len(arr) {
				panic(targetPanic{iface{t: errorType, v: "reflect: array index out of range"}})
			}
			return makeReflectValueAddr(t.(*types.Array).Elem(), &arr[i])
		}
	}
	switch v := rV2V(args[0]).(type) {
	case array:
		if i < 0 || i >= len(v) {
			panic(targetPanic{iface{t: errorType, v: "reflect: array index out of range"}})
		}
		return makeReflectValue(t.(*types.Array).Elem(), v[i])
	case []value:
		if i < 0 || i >= len(v) {
			panic(targetPanic{iface{t: errorType, v: "reflect: slice index out of range"}})
		}
		return makeReflectValueAddr(t.(*types.Slice).Elem(), &v[i])
	default:
		panic(fmt.Sprintf("reflect.(Value).Index(%T)", v))
	}
}

func ext۰reflect۰Value۰Bool(fr *frame, args []value) value {
	// Signature: func (reflect.Value) bool
	return rV2V(args[0]) // bool or Bool term
}

func ext۰reflect۰Value۰CanAddr(fr *frame, args []value) value {
	// Signature: func (v reflect.Value) bool
	return rVAddr(args[0]) != nil
}

func ext۰reflect۰Value۰Addr(fr *frame, args []value) value {
	a := rVMustAddr(args[0], "Value.Addr")
	return makeReflectValue(types.NewPointer(rV2T(args[0]).t), a)
}

func ext۰reflect۰Value۰SetInt(fr *frame, args []value) value {
	a := rVMustAddr(args[0], "Value.SetInt")
	t := rV2T(args[0]).t
	fr.i.store(t, a, conv(fr.i, t, types.Typ[types.Int64], args[1]))
	return nil
}

func ext۰reflect۰Value۰SetUint(fr *frame, args []value) value {
	a := rVMustAddr(args[0], "Value.SetUint")
	t := rV2T(args[0]).t
	fr.i.store(t, a, conv(fr.i, t, types.Typ[types.Uint64], args[1]))
	return nil
}

func ext۰reflect۰Value۰SetFloat(fr *frame, args []value) value {
	a := rVMustAddr(args[0], "Value.SetFloat")
	t := rV2T(args[0]).t
	fr.i.store(t, a, conv(fr.i, t, types.Typ[types.Float64], args[1]))
	return nil
}

func ext۰reflect۰Value۰SetBool(fr *frame, args []value) value {
	a := rVMustAddr(args[0], "Value.SetBool")
	fr.i.store(rV2T(args[0]).t, a, args[1])
	return nil
}

func ext۰reflect۰Value۰SetString(fr *frame, args []value) value {
	a := rVMustAddr(args[0], "Value.SetString")
	fr.i.store(rV2T(args[0]).t, a, args[1])
	return nil
}

func ext۰reflect۰Value۰SetBytes(fr *frame, args []value) value {
	a := rVMustAddr(args[0], "Value.SetBytes")
	fr.i.store(rV2T(args[0]).t, a, args[1])
	return nil
}

func ext۰reflect۰Value۰CanInterface(fr *frame, args []value) value {
	// Signature: func (v reflect.Value) bool
	// Always true for our representation.
	return true
}

func ext۰reflect۰Value۰Elem(fr *frame, args []value) value {
	// Signature: func (v reflect.Value) reflect.Value
	switch x := rV2V(args[0]).(type) {
	case iface:
		return makeReflectValue(x.t, x.v)
	case *value:
		et := rV2T(args[0]).t.Underlying().(*types.Pointer).Elem()
		if x == nil {
			return structure{nil, nil, (*value)(nil)} // zero Value
		}
		return makeReflectValueAddr(et, x)
	default:
		panic(fmt.Sprintf("reflect.(Value).Elem(%T)", x))
	}
}

func ext۰reflect۰Value۰Field(fr *frame, args []value) value {
	// Signature: func (v reflect.Value, i int) reflect.Value
	v := args[0]
	i := args[1].(int)
	st, ok := rV2T(v).t.Underlying().(*types.Struct)
	if !ok {
		panic(targetPanic{iface{t: errorType, v: "reflect: call of reflect.Value.Field on " + rV2T(v).t.String() + " Value"}})
	}
	if i < 0 || i >= st.NumFields() {
		panic(targetPanic{iface{t: errorType, v: "reflect: Field index out of range"}})
	}
	ft := st.Field(i).Type()
	if a := rVAddr(v); a != nil {
		return makeReflectValueAddr(ft, &(*a).(structure)[i])
	}
	return makeReflectValue(ft, rV2V(v).(structure)[i])
}

func ext۰reflect۰Value۰Float(fr *frame, args []value) value {
	// Signature: func (reflect.Value) float64
	if t, ok := rV2V(args[0]).(*sym.Term); ok {
		return conv(fr.i, types.Typ[types.Float64], rV2T(args[0]).t, t)
	}
	switch v := rV2V(args[0]).(type) {
	case float32:
		return float64(v)
	case float64:
		return float64(v)
	}
	panic("reflect.Value.Float")
}

func ext۰reflect۰Value۰Interface(fr *frame, args []value) value {
	// Signature: func (v reflect.Value) interface{}
	return ext۰reflect۰valueInterface(fr, args)
}

func ext۰reflect۰Value۰Int(fr *frame, args []value) value {
	// Signature: func (reflect.Value) int64
	if t, ok := rV2V(args[0]).(*sym.Term); ok {
		return conv(fr.i, types.Typ[types.Int64], rV2T(args[0]).t, t)
	}
	switch x := rV2V(args[0]).(type) {
	case int:
		return int64(x)
	case int8:
		return int64(x)
	case int16:
		return int64(x)
	case int32:
		return int64(x)
	case int64:
		return x
	default:
		panic(fmt.Sprintf("reflect.(Value).Int(%T)", x))
	}
}

func ext۰reflect۰Value۰IsNil(fr *frame, args []value) value {
	// Signature: func (reflect.Value) bool
	switch x := rV2V(args[0]).(type) {
	case *value:
		return x == nil
	case chan value:
		return x == nil
	case *omap:
		return x == nil
	case iface:
		return x.t == nil
	case []value:
		return x == nil
	case *ssa.Function:
		return x == nil
	case *ssa.Builtin:
		return x == nil
	case *closure:
		return x == nil
	default:
		panic(fmt.Sprintf("reflect.(Value).IsNil(%T)", x))
	}
}

// isZeroValue mirrors reflect.Value.IsZero: a Go bool, or a Bool term when the
// answer depends on symbolic contents.
func isZeroValue(fr *frame, t types.Type, v value) value {
	var cx *sym.Ctx
	if fr.i.ps != nil {
		cx = fr.i.ps.cx
	}
	and := func(a, b value) value {
		if ab, ok := a.(bool); ok {
			if !ab {
				return false
			}
			return b
		}
		if bb, ok := b.(bool); ok {
			if !bb {
				return false
			}
			return a
		}
		return cx.And(a.(*sym.Term), b.(*sym.Term))
	}
	switch u := t.Underlying().(type) {
	case *types.Basic:
		if u.Info()&types.IsString != 0 {
			switch s := v.(type) {
			case string:
				return len(s) == 0
			case sstr:
				return len(s) == 0
			}
		}
		if tm, ok := v.(*sym.Term); ok {
			switch {
			case tm.W == 0 || u.Info()&types.IsBoolean != 0:
				return cx.Not(tm)
			case u.Info()&types.IsFloat != 0:
				return cx.FCmp(sym.OpFEq, tm, cx.Const(tm.W, 0))
			}
			return cx.Eq(tm, cx.Const(tm.W, 0))
		}
		switch x := v.(type) {
		case bool:
			return !x
		case float32:
			return x == 0
		case float64:
			return x == 0
		case complex64:
			return x == 0
		case complex128:
			return x == 0
		}
		if u.Info()&types.IsUnsigned != 0 {
			return asUint64(v) == 0
		}
		return asInt64(v) == 0
	case *types.Struct:
		var r value = true
		for k := 0; k < u.NumFields(); k++ {
			if u.Field(k).Name() == "_" {
				continue
			}
			r = and(r, isZeroValue(fr, u.Field(k).Type(), v.(structure)[k]))
		}
		return r
	case *types.Array:
		var r value = true
		for _, e := range v.(array) {
			r = and(r, isZeroValue(fr, u.Elem(), e))
		}
		return r
	}
	return ext۰reflect۰Value۰IsNil(fr, []value{makeReflectValue(t, v)})
}

func ext۰reflect۰Value۰IsZero(fr *frame, args []value) value {
	// Signature: func (reflect.Value) bool
	return isZeroValue(fr, rV2T(args[0]).t, rV2V(args[0]))
}

func ext۰reflect۰Value۰IsValid(fr *frame, args []value) value {
	// Signature: func (reflect.Value) bool
	rt, ok := args[0].(structure)[0].(rtype)
	return ok && rt.t != nil
}

func ext۰reflect۰Value۰Set(fr *frame, args []value) value {
	a := rVMustAddr(args[0], "Value.Set")
	t := rV2T(args[0]).t
	if src, ok := args[1].(structure)[0].(rtype); !ok || src.t == nil {
		panic(targetPanic{iface{t: errorType, v: "reflect: call of reflect.Value.Set on zero Value"}})
	} else if !types.AssignableTo(src.t, t) {
		panic(targetPanic{iface{t: errorType, v: "reflect.Set: value of type " + src.t.String() + " is not assignable to type " + t.String()}})
	}
	v := rV2V(args[1])
	if _, isIface := t.Underlying().(*types.Interface); isIface {
		if _, already := v.(iface); !already {
			v = iface{t: rV2T(args[1]).t, v: v}
		}
	}
	fr.i.store(t, a, v)
	return nil
}

func ext۰reflect۰valueInterface(fr *frame, args []value) value {
	// Signature: func (v reflect.Value, safe bool) interface{}
	v := args[0].(structure)
	if _, isIface := rV2T(v).t.Underlying().(*types.Interface); isIface {
		// a Value of interface kind holds an interface value: hand it out as is
		if inner, ok := rV2V(v).(iface); ok {
			return inner
		}
	}
	return iface{rV2T(v).t, rV2V(v)}
}

func ext۰reflect۰error۰Error(fr *frame, args []value) value {
	return args[0]
}

// newMethod creates a new method of the specified name, package and receiver type.
func newMethod(pkg *ssa.Package, recvType types.Type, name string) *ssa.Function {
	// TODO(adonovan): fix: hack: currently the only part of Signature
	// that is needed is the "pointerness" of Recv.Type, and for
	// now, we'll set it to always be false since we're only
	// concerned with rtype.  Encapsulate this better.
	sig := types.NewSignature(types.NewVar(token.NoPos, nil, "recv", recvType), nil, nil, false)
	fn := pkg.Prog.NewFunction(name, sig, "fake reflect method")
	fn.Pkg = pkg
	return fn
}

var (
	reflectPatchMu sync.Mutex
	reflectPatched = map[*ssa.Program]bool{}
)

func initReflect(i *interpreter) {
	reflectPatchMu.Lock()
	defer reflectPatchMu.Unlock()
	i.reflectPackage = &ssa.Package{
		Prog:    i.prog,
		Pkg:     reflectTypesPackage,
		Members: make(map[string]ssa.Member),
	}

	// Clobber the type-checker's notion of reflect.Value's
	// underlying type so that it more closely matches the fake one
	// (at least in the number of fields---we lie about the type of
	// the rtype field).
	//
	// We must ensure that calls to (ssa.Value).Type() return the
	// fake type so that correct "shape" is used when allocating
	// variables, making zero values, loading, and storing.
	//
	// TODO(adonovan): obviously this is a hack.  We need a cleaner
	// way to fake the reflect package (almost---DeepEqual is fine).
	// One approach would be not to even load its source code, but
	// provide fake source files.  This would guarantee that no bad
	// information leaks into other packages.
	if r := i.prog.ImportedPackage("reflect"); r != nil && !reflectPatched[i.prog] {
		reflectPatched[i.prog] = true
		rV := r.Pkg.Scope().Lookup("Value").Type().(*types.Named)

		// delete bodies of the old methods
		mset := i.prog.MethodSets.MethodSet(rV)
		for j := 0; j < mset.Len(); j++ {
			i.prog.MethodValue(mset.At(j)).Blocks = nil
		}

		tEface := types.NewInterface(nil, nil).Complete()
		rV.SetUnderlying(types.NewStruct([]*types.Var{
			types.NewField(token.NoPos, r.Pkg, "t", tEface, false), // a lie
			types.NewField(token.NoPos, r.Pkg, "v", tEface, false),
			types.NewField(token.NoPos, r.Pkg, "a", tEface, false),
		}, nil))
	}

	i.rtypeMethods = methodSet{
		"Bits":          newMethod(i.reflectPackage, rtypeType, "Bits"),
		"Elem":          newMethod(i.reflectPackage, rtypeType, "Elem"),
		"Field":         newMethod(i.reflectPackage, rtypeType, "Field"),
		"In":            newMethod(i.reflectPackage, rtypeType, "In"),
		"Kind":          newMethod(i.reflectPackage, rtypeType, "Kind"),
		"NumField":      newMethod(i.reflectPackage, rtypeType, "NumField"),
		"NumIn":         newMethod(i.reflectPackage, rtypeType, "NumIn"),
		"NumMethod":     newMethod(i.reflectPackage, rtypeType, "NumMethod"),
		"NumOut":        newMethod(i.reflectPackage, rtypeType, "NumOut"),
		"Out":           newMethod(i.reflectPackage, rtypeType, "Out"),
		"Size":          newMethod(i.reflectPackage, rtypeType, "Size"),
		"Key":           newMethod(i.reflectPackage, rtypeType, "Key"),
		"Len":           newMethod(i.reflectPackage, rtypeType, "Len"),
		"Name":          newMethod(i.reflectPackage, rtypeType, "Name"),
		"PkgPath":       newMethod(i.reflectPackage, rtypeType, "PkgPath"),
		"Comparable":    newMethod(i.reflectPackage, rtypeType, "Comparable"),
		"AssignableTo":  newMethod(i.reflectPackage, rtypeType, "AssignableTo"),
		"ConvertibleTo": newMethod(i.reflectPackage, rtypeType, "ConvertibleTo"),
		"Implements":    newMethod(i.reflectPackage, rtypeType, "Implements"),
		"String":        newMethod(i.reflectPackage, rtypeType, "String"),
	}
	i.errorMethods = methodSet{
		"Error": newMethod(i.reflectPackage, errorType, "Error"),
	}
}

// copyVal copies value-typed aggregates (structs, arrays) so that the stored
// element does not alias the source cell.
func copyVal(v value) value {
	switch v := v.(type) {
	case structure:
		c := make(structure, len(v))
		for k := range v {
			c[k] = copyVal(v[k])
		}
		return c
	case array:
		c := make(array, len(v))
		for k := range v {
			c[k] = copyVal(v[k])
		}
		return c
	case iface:
		return iface{t: v.t, v: copyVal(v.v)}
	}
	return v
}

// cellAddr is the address Go would report for a pointer to this cell: a
// struct shares its address with its first field, an array with its first
// element (so that &s and &s.first compare equal as uintptrs, as they do
// natively).
func cellAddr(p *value) uintptr {
	for p != nil {
		switch agg := (*p).(type) {
		case structure:
			if len(agg) == 0 {
				return uintptr(unsafe.Pointer(p))
			}
			p = &agg[0]
			continue
		case array:
			if len(agg) == 0 {
				return uintptr(unsafe.Pointer(p))
			}
			p = &agg[0]
			continue
		}
		break
	}
	return uintptr(unsafe.Pointer(p))
}
