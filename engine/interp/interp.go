// Copyright 2013 The Go Authors. All rights reserved.
// Use of this source code is governed by a BSD-style
// license that can be found in the LICENSE file.

// Package ssa/interp defines an interpreter for the SSA
// representation of Go programs.
//
// This interpreter is provided as an adjunct for testing the SSA
// construction algorithm.  Its purpose is to provide a minimal
// metacircular implementation of the dynamic semantics of each SSA
// instruction.  It is not, and will never be, a production-quality Go
// interpreter.
//
// The following is a partial list of Go features that are currently
// unsupported or incomplete in the interpreter.
//
// * Unsafe operations, including all uses of unsafe.Pointer, are
// impossible to support given the "boxed" value representation we
// have chosen.
//
// * The reflect package is only partially implemented.
//
// * The "testing" package is no longer supported because it
// depends on low-level details that change too often.
//
// * "sync/atomic" operations are not atomic due to the "boxed" value
// representation: it is not possible to read, modify and write an
// interface value atomically. As a consequence, Mutexes are currently
// broken.
//
// * recover is only partially implemented.  Also, the interpreter
// makes no attempt to distinguish target panics from interpreter
// crashes.
//
// * the sizes of the int, uint and uintptr types in the target
// program are assumed to be the same as those of the interpreter
// itself.
//
// * all values occupy space, even those of types defined by the spec
// to have zero size, e.g. struct{}.  This can cause asymptotic
// performance degradation.
//
// * os.Exit is implemented using panic, causing deferred functions to
// run.
package interp // import "golang.org/x/tools/go/ssa/interp"

import (
	"fmt"
	"go/token"
	"go/types"
	"log"
	"os"
	"runtime"
	"slices"
	"strings"
	"sync"
	_ "unsafe"

	"golang.org/x/tools/go/ssa"

	"verif/engine/sym"
)

type continuation int

const (
	kNext continuation = iota
	kReturn
	kJump
)

// Mode is a bitmask of options affecting the interpreter.
type Mode uint

const (
	DisableRecover Mode = 1 << iota // Disable recover() in target programs; show interpreter crash instead.
	EnableTracing                   // Print a trace of all instructions as they are interpreted.
)

type methodSet map[string]*ssa.Function

// State shared between all interpreted goroutines.
type interpreter struct {
	osArgs             []value                // the value of os.Args
	prog               *ssa.Program           // the SSA program
	globals            map[*ssa.Global]*value // addresses of global variables (immutable)
	mode               Mode                   // interpreter options
	reflectPackage     *ssa.Package           // the fake reflect package
	errorMethods       methodSet              // the method set of reflect.error, which implements the error interface.
	rtypeMethods       methodSet              // the method set of rtype, which implements the reflect.Type interface.
	runtimeErrorString types.Type             // the runtime.errorString type
	sizes              types.Sizes            // the effective type-sizing function
	goroutines         int32                  // atomically updated

	// symbolic execution state
	cfg            Config
	stats          Stats
	ps             *pathState // current path
	trail          []undoRec  // undo log of heap mutations on this path
	inInit         int        // >0 while running a package initializer
	initRunning    *ssa.Package
	inited         map[*ssa.Package]bool // lazily initialised packages
	initFailed     map[string]string     // package path -> reason
	stubs          map[string]*ssa.Function
	funcsRun       map[*ssa.Function]int // functions interpreted (for evidence)
	depth          int
	lastUnknown    string
	harnessPkgs    map[*ssa.Package]bool
	cur            *frame
	methCache      map[methKey]*ssa.Function
	fnInfos        map[*ssa.Function]*fnInfo
	backing        map[*value][]value // &s[k] -> s[k:] for unsafe reinterpretation (recorded on IndexAddr when needed)
	syncMaps       map[*value]*omap   // contents of sync.Map values, by address (sequential model)
	waitGroups     map[*value]*int    // counters of sync.WaitGroup values, by address
	mapIters       map[*value]*mapIterState
	bypassExternal string           // name of an external whose next call runs the real function
	regexCache     map[string]value // regexp.Compile results for concrete patterns (built outside the undo trail)
}

type deferred struct {
	fn    value
	args  []value
	instr *ssa.Defer
	tail  *deferred
}

type frame struct {
	i                *interpreter
	caller           *frame
	fn               *ssa.Function
	block, prevBlock *ssa.BasicBlock
	env              []value // dynamic values of SSA variables, indexed by info.index
	info             *fnInfo
	locals           []value
	defers           *deferred
	result           value
	panicking        bool
	panic            interface{}
	phitemps         []value // temporaries for parallel phi assignment
}

func (fr *frame) get(key ssa.Value) value {
	switch key := key.(type) {
	case nil:
		// Hack; simplifies handling of optional attributes
		// such as ssa.Slice.{Low,High}.
		return nil
	case *ssa.Function, *ssa.Builtin:
		return key
	case *ssa.Const:
		return constValue(key)
	case *ssa.Global:
		if r, ok := fr.i.globals[key]; ok {
			if key.Pkg != nil && !fr.i.inited[key.Pkg] {
				fr.i.ensureInit(key.Pkg)
			}
			return r
		}
	}
	if k, ok := fr.info.index[key]; ok {
		if r := fr.env[k]; r != nil {
			return r
		}
	}
	panic(fmt.Sprintf("get: no value for %T: %v", key, key.Name()))
}

// runDefer runs a deferred call d.
// It always returns normally, but may set or clear fr.panic.
func (fr *frame) runDefer(d *deferred) {
	if fr.i.mode&EnableTracing != 0 {
		fmt.Fprintf(os.Stderr, "%s: invoking deferred function call\n",
			fr.i.prog.Fset.Position(d.instr.Pos()))
	}
	var ok bool
	defer func() {
		if !ok {
			// Deferred call created a new state of panic.
			p := recover()
			if isEngineAbort(p) {
				panic(p)
			}
			fr.panicking = true
			fr.panic = p
		}
	}()
	call(fr.i, fr, d.instr.Pos(), d.fn, d.args)
	ok = true
}

// runDefers executes fr's deferred function calls in LIFO order.
//
// On entry, fr.panicking indicates a state of panic; if
// true, fr.panic contains the panic value.
//
// On completion, if a deferred call started a panic, or if no
// deferred call recovered from a previous state of panic, then
// runDefers itself panics after the last deferred call has run.
//
// If there was no initial state of panic, or it was recovered from,
// runDefers returns normally.
func (fr *frame) runDefers() {
	for d := fr.defers; d != nil; d = d.tail {
		fr.runDefer(d)
	}
	fr.defers = nil
	if fr.panicking {
		panic(fr.panic) // new panic, or still panicking
	}
}

// lookupMethod returns the method set for type typ, which may be one
// of the interpreter's fake types.
func lookupMethod(i *interpreter, typ types.Type, meth *types.Func) *ssa.Function {
	switch typ {
	case rtypeType:
		return i.rtypeMethods[meth.Id()]
	case errorType:
		return i.errorMethods[meth.Id()]
	}
	k := methKey{typ, meth}
	if f, ok := i.methCache[k]; ok {
		return f
	}
	f := i.prog.LookupMethod(typ, meth.Pkg(), meth.Name())
	i.methCache[k] = f
	return f
}

type methKey struct {
	t types.Type
	m *types.Func
}

// visitInstr interprets a single ssa.Instruction within the activation
// record frame.  It returns a continuation value indicating where to
// read the next instruction from.
func visitInstr(fr *frame, instr ssa.Instruction) continuation {
	i := fr.i
	i.stats.Steps++
	if ps := i.ps; ps != nil && i.inInit == 0 {
		ps.steps++
		if ps.hangBudget > 0 && ps.steps > ps.hangBudget {
			// the harness declared that this many steps means "does not return"
			ps.hangBudget = 0
			ps.violated("fatal", fmt.Sprintf("no return within %d interpreted instructions (hang) in %s", ps.steps-1, fr.fn), ps.cx.True())
			ps.fail("done", "hang budget exceeded")
		}
		if ps.steps > i.cfg.MaxSteps {
			ps.fail("budget", "step budget %d exhausted (possible hang) in %s\n%s", i.cfg.MaxSteps, fr.fn, i.stackString())
		}
	}
	switch instr := instr.(type) {
	case *ssa.DebugRef:
		// no-op

	case *ssa.UnOp:
		fr.set(instr, unop(instr, fr.get(instr.X)))

	case *ssa.BinOp:
		fr.set(instr, binop(instr.Op, instr.X.Type(), fr.get(instr.X), fr.get(instr.Y)))

	case *ssa.Call:
		fn, args := prepareCall(fr, &instr.Call)
		fr.set(instr, call(fr.i, fr, instr.Pos(), fn, args))

	case *ssa.ChangeInterface:
		fr.set(instr, fr.get(instr.X))

	case *ssa.ChangeType:
		fr.set(instr, fr.get(instr.X)) // (can't fail)

	case *ssa.Convert:
		if b, ok := instr.Type().Underlying().(*types.Basic); ok && b.Kind() == types.UnsafePointer {
			if _, isPtr := instr.X.Type().Underlying().(*types.Pointer); isPtr {
				fr.set(instr, i.addrToUnsafe(fr, instr))
				break
			}
		}
		fr.set(instr, conv(i, instr.Type(), instr.X.Type(), fr.get(instr.X)))

	case *ssa.SliceToArrayPointer:
		fr.set(instr, sliceToArrayPointer(instr.Type(), instr.X.Type(), fr.get(instr.X)))

	case *ssa.MakeInterface:
		fr.set(instr, iface{t: instr.X.Type(), v: fr.get(instr.X)})

	case *ssa.Extract:
		fr.set(instr, fr.get(instr.Tuple).(tuple)[instr.Index])

	case *ssa.Slice:
		fr.set(instr, slice(i, fr.get(instr.X), fr.get(instr.Low), fr.get(instr.High), fr.get(instr.Max)))

	case *ssa.Return:
		switch len(instr.Results) {
		case 0:
		case 1:
			fr.result = fr.get(instr.Results[0])
		default:
			var res []value
			for _, r := range instr.Results {
				res = append(res, fr.get(r))
			}
			fr.result = tuple(res)
		}
		fr.block = nil
		return kReturn

	case *ssa.RunDefers:
		fr.runDefers()

	case *ssa.Panic:
		panic(targetPanic{fr.get(instr.X)})

	case *ssa.Send:
		unsupported("channel send in %s", fr.fn)

	case *ssa.Store:
		addr := fr.get(instr.Addr)
		p, ok := addr.(*value)
		if !ok {
			storeSpecial(i, addr, mustDeref(instr.Addr.Type()), fr.get(instr.Val))
			break
		}
		if p == nil {
			panic(runtimeErr("invalid memory address or nil pointer dereference"))
		}
		i.store(mustDeref(instr.Addr.Type()), p, fr.get(instr.Val))

	case *ssa.If:
		succ := 1
		switch c := fr.get(instr.Cond).(type) {
		case bool:
			if c {
				succ = 0
			}
		case *sym.Term:
			if psOf(c).branch(c) {
				succ = 0
			}
		default:
			panic(fmt.Sprintf("If: unexpected condition %T", c))
		}
		fr.prevBlock, fr.block = fr.block, fr.block.Succs[succ]
		return kJump

	case *ssa.Jump:
		fr.prevBlock, fr.block = fr.block, fr.block.Succs[0]
		return kJump

	case *ssa.Defer:
		fn, args := prepareCall(fr, &instr.Call)
		defers := &fr.defers
		if into := fr.get(instr.DeferStack); into != nil {
			defers = into.(**deferred)
		}
		*defers = &deferred{
			fn:    fn,
			args:  args,
			instr: instr,
			tail:  *defers,
		}

	case *ssa.Go:
		unsupported("go statement in %s", fr.fn)

	case *ssa.MakeChan:
		unsupported("make(chan) in %s", fr.fn)

	case *ssa.Alloc:
		var addr *value
		if instr.Heap {
			// new
			addr = new(value)
			fr.set(instr, addr)
		} else {
			// local
			addr = fr.get(instr).(*value)
		}
		*addr = zero(mustDeref(instr.Type()))

	case *ssa.MakeSlice:
		tElt := instr.Type().Underlying().(*types.Slice).Elem()
		n := i.concreteLen(fr.get(instr.Len), tElt, "make([]T, len)")
		c := i.concreteLen(fr.get(instr.Cap), tElt, "make([]T, len, cap)")
		if n < 0 {
			panic(runtimeErr("makeslice: len out of range"))
		}
		if c < n {
			panic(runtimeErr("makeslice: cap out of range"))
		}
		i.chargeAlloc(uint64(c), tElt)
		slice := make([]value, c)
		for k := range slice {
			slice[k] = zero(tElt)
		}
		fr.set(instr, slice[:n])

	case *ssa.MakeMap:
		fr.set(instr, makeMap(instr.Type().Underlying().(*types.Map).Key(), 0))

	case *ssa.Range:
		fr.set(instr, rangeIter(i, fr.get(instr.X), instr.X.Type()))

	case *ssa.Next:
		fr.set(instr, fr.get(instr.Iter).(iter).next())

	case *ssa.FieldAddr:
		p := fr.get(instr.X).(*value)
		if p == nil {
			panic(runtimeErr("invalid memory address or nil pointer dereference"))
		}
		fr.set(instr, &(*p).(structure)[instr.Field])

	case *ssa.Field:
		fr.set(instr, fr.get(instr.X).(structure)[instr.Field])

	case *ssa.IndexAddr:
		x := fr.get(instr.X)
		switch x := x.(type) {
		case []value:
			if t, ok := fr.get(instr.Index).(*sym.Term); ok && onlyLoaded(instr) {
				fr.set(instr, symElemRef{elems: x, idx: t, it: instr.Index.Type()})
				break
			}
			idx := i.index(fr.get(instr.Index), len(x), instr.Index.Type())
			fr.set(instr, &x[idx])
		case *value: // *array
			if x == nil {
				panic(runtimeErr("invalid memory address or nil pointer dereference"))
			}
			a := (*x).(array)
			if t, ok := fr.get(instr.Index).(*sym.Term); ok && onlyLoaded(instr) {
				fr.set(instr, symElemRef{elems: []value(a), idx: t, it: instr.Index.Type()})
				break
			}
			idx := i.index(fr.get(instr.Index), len(a), instr.Index.Type())
			fr.set(instr, &a[idx])
		case *byteView:
			idx := i.index(fr.get(instr.Index), x.length(), instr.Index.Type())
			fr.set(instr, x.elemRef(idx))
		default:
			panic(fmt.Sprintf("unexpected x type in IndexAddr: %T", x))
		}

	case *ssa.Index:
		x := fr.get(instr.X)
		idx := fr.get(instr.Index)

		switch x := x.(type) {
		case array:
			fr.set(instr, i.indexRead([]value(x), idx, instr.Index.Type()))
		case string:
			if t, ok := idx.(*sym.Term); ok {
				fr.set(instr, i.indexRead(strToValues(x), t, instr.Index.Type()))
			} else {
				k := asInt64(idx)
				if k < 0 || k >= int64(len(x)) {
					panic(runtimeErr(fmt.Sprintf("index out of range [%d] with length %d", k, len(x))))
				}
				fr.set(instr, x[k])
			}
		case sstr:
			fr.set(instr, i.indexRead([]value(x), idx, instr.Index.Type()))
		default:
			panic(fmt.Sprintf("unexpected x type in Index: %T", x))
		}

	case *ssa.Lookup:
		fr.set(instr, lookup(i, instr, fr.get(instr.X), fr.get(instr.Index)))

	case *ssa.MapUpdate:
		m := fr.get(instr.Map).(*omap)
		if m == nil {
			panic(runtimeErr("assignment to entry in nil map"))
		}
		m.insert(i, fr.get(instr.Key), fr.get(instr.Value))

	case *ssa.TypeAssert:
		fr.set(instr, typeAssert(fr.i, instr, fr.get(instr.X).(iface)))

	case *ssa.MakeClosure:
		var bindings []value
		for _, binding := range instr.Bindings {
			bindings = append(bindings, fr.get(binding))
		}
		fr.set(instr, &closure{instr.Fn.(*ssa.Function), bindings})

	case *ssa.Phi:
		log.Fatal("unreachable") // phis are processed at block entry

	case *ssa.Select:
		unsupported("select in %s", fr.fn)

	default:
		panic(fmt.Sprintf("unexpected instruction: %T", instr))
	}

	return kNext
}

// prepareCall determines the function value and argument values for a
// function call in a Call, Go or Defer instruction, performing
// interface method lookup if needed.
func prepareCall(fr *frame, call *ssa.CallCommon) (fn value, args []value) {
	v := fr.get(call.Value)
	if call.Method == nil {
		// Function call.
		fn = v
	} else {
		// Interface method invocation.
		recv := v.(iface)
		if recv.t == nil {
			panic("method invoked on nil interface")
		}
		if f := lookupMethod(fr.i, recv.t, call.Method); f == nil {
			// Unreachable in well-typed programs.
			panic(fmt.Sprintf("method set for dynamic type %v does not contain %s", recv.t, call.Method))
		} else {
			fn = f
		}
		args = append(args, recv.v)
	}
	for _, arg := range call.Args {
		args = append(args, fr.get(arg))
	}
	return
}

// call interprets a call to a function (function, builtin or closure)
// fn with arguments args, returning its result.
// callpos is the position of the callsite.
func call(i *interpreter, caller *frame, callpos token.Pos, fn value, args []value) value {
	switch fn := fn.(type) {
	case *ssa.Function:
		if fn == nil {
			panic("call of nil function") // nil of func type
		}
		return callSSA(i, caller, callpos, fn, args, nil)
	case *closure:
		return callSSA(i, caller, callpos, fn.Fn, args, fn.Env)
	case *ssa.Builtin:
		return callBuiltin(caller, callpos, fn, args)
	}
	panic(fmt.Sprintf("cannot call %T", fn))
}

func loc(fset *token.FileSet, pos token.Pos) string {
	if pos == token.NoPos {
		return ""
	}
	return " at " + fset.Position(pos).String()
}

// callSSA interprets a call to function fn with arguments args,
// and lexical environment env, returning its result.
// callpos is the position of the callsite.
func callSSA(i *interpreter, caller *frame, callpos token.Pos, fn *ssa.Function, args []value, env []value) value {
	if i.mode&EnableTracing != 0 {
		fset := fn.Prog.Fset
		fmt.Fprintf(os.Stderr, "Entering %s%s.\n", fn, loc(fset, fn.Pos()))
		suffix := ""
		if caller != nil {
			suffix = ", resuming " + caller.fn.String() + loc(fset, callpos)
		}
		defer fmt.Fprintf(os.Stderr, "Leaving %s%s.\n", fn, suffix)
	}
	fr := &frame{
		i:      i,
		caller: caller, // for panic/recover
		fn:     fn,
	}
	if fn.Parent() == nil {
		name := fnName(fn)
		if len(i.stubs) > 0 {
			if st := i.stubs[name]; st != nil && (caller == nil || caller.fn != st) {
				return callSSA(i, caller, callpos, st, args, nil)
			}
		}
		if ext := externals[name]; ext != nil && i.bypassExternal != name {
			if i.mode&EnableTracing != 0 {
				fmt.Fprintln(os.Stderr, "\t(external)")
			}
			return ext(fr, args)
		}
		if fn.Synthetic == "package initializer" {
			// Initializers are run lazily by ensureInit; the eager calls an
			// initializer makes to its dependencies are skipped.
			if i.initRunning != fn.Pkg {
				return nil
			}
		} else if fn.Pkg != nil && !i.inited[fn.Pkg] {
			i.ensureInit(fn.Pkg)
		}
		if fn.Blocks == nil {
			unsupported("no code for function: %s", name)
		}
	}

	// generic function body?
	if fn.TypeParams().Len() > 0 && len(fn.TypeArgs()) == 0 {
		panic("interp requires ssa.BuilderMode to include InstantiateGenerics to execute generics")
	}
	i.funcsRun[fn]++
	savedCur := i.cur
	i.cur = fr
	defer func() { i.cur = savedCur }()
	i.depth++
	if i.depth > 2000 {
		i.depth = 0
		panic(abort{"fatal", "call depth > 2000 (unbounded recursion?) in " + fn.String()})
	}
	defer func() { i.depth-- }()

	fr.info = i.infoOf(fn)
	fr.env = make([]value, fr.info.n)
	fr.block = fn.Blocks[0]
	fr.locals = make([]value, len(fn.Locals))
	for i, l := range fn.Locals {
		fr.locals[i] = zero(mustDeref(l.Type()))
		fr.set(l, &fr.locals[i])
	}
	for i, p := range fn.Params {
		fr.set(p, args[i])
	}
	for i, fv := range fn.FreeVars {
		fr.set(fv, env[i])
	}
	for fr.block != nil {
		runFrame(fr)
	}
	// Destroy the locals to avoid accidental use after return.
	for i := range fn.Locals {
		fr.locals[i] = bad{}
	}
	return fr.result
}

// runFrame executes SSA instructions starting at fr.block and
// continuing until a return, a panic, or a recovered panic.
//
// After a panic, runFrame panics.
//
// After a normal return, fr.result contains the result of the call
// and fr.block is nil.
//
// A recovered panic in a function without named return parameters
// (NRPs) becomes a normal return of the zero value of the function's
// result type.
//
// After a recovered panic in a function with NRPs, fr.result is
// undefined and fr.block contains the block at which to resume
// control.
func runFrame(fr *frame) {
	defer func() {
		if fr.block == nil {
			return // normal return
		}
		if fr.i.mode&DisableRecover != 0 {
			return // let interpreter crash
		}
		p := recover()
		if isEngineAbort(p) {
			panic(p)
		}
		if re, ok := p.(runtime.Error); ok {
			// the interpreter itself crashed: never let the target recover from it
			buf := make([]byte, 4096)
			buf = buf[:runtime.Stack(buf, false)]
			panic(abort{"engine-bug", fmt.Sprintf("%v in %s\n%s", re, fr.fn, buf)})
		}
		fr.panicking = true
		fr.panic = p
		if fr.i.mode&EnableTracing != 0 {
			fmt.Fprintf(os.Stderr, "Panicking: %T %v.\n", fr.panic, fr.panic)
		}
		fr.runDefers()
		fr.block = fr.fn.Recover
	}()

	for {
		if fr.i.mode&EnableTracing != 0 {
			fmt.Fprintf(os.Stderr, ".%s:\n", fr.block)
		}

		nonPhis := executePhis(fr)
		for _, instr := range nonPhis {
			if fr.i.mode&EnableTracing != 0 {
				if v, ok := instr.(ssa.Value); ok {
					fmt.Fprintln(os.Stderr, "\t", v.Name(), "=", instr)
				} else {
					fmt.Fprintln(os.Stderr, "\t", instr)
				}
			}
			if visitInstr(fr, instr) == kReturn {
				return
			}
			// Inv: kNext (continue) or kJump (last instr)
		}
	}
}

// executePhis executes the phi-nodes at the start of the current
// block and returns the non-phi instructions.
func executePhis(fr *frame) []ssa.Instruction {
	firstNonPhi := -1
	for i, instr := range fr.block.Instrs {
		if _, ok := instr.(*ssa.Phi); !ok {
			firstNonPhi = i
			break
		}
	}
	// Inv: 0 <= firstNonPhi; every block contains a non-phi.

	nonPhis := fr.block.Instrs[firstNonPhi:]
	if firstNonPhi > 0 {
		phis := fr.block.Instrs[:firstNonPhi]
		// Execute parallel assignment of phis.
		//
		// See "the swap problem" in Briggs et al's "Practical Improvements
		// to the Construction and Destruction of SSA Form" for discussion.
		predIndex := slices.Index(fr.block.Preds, fr.prevBlock)
		fr.phitemps = fr.phitemps[:0]
		for _, phi := range phis {
			phi := phi.(*ssa.Phi)
			if fr.i.mode&EnableTracing != 0 {
				fmt.Fprintln(os.Stderr, "\t", phi.Name(), "=", phi)
			}
			fr.phitemps = append(fr.phitemps, fr.get(phi.Edges[predIndex]))
		}
		for i, phi := range phis {
			fr.set(phi.(*ssa.Phi), fr.phitemps[i])
		}
	}
	return nonPhis
}

// doRecover implements the recover() built-in.
func doRecover(caller *frame) value {
	// recover() must be exactly one level beneath the deferred
	// function (two levels beneath the panicking function) to
	// have any effect.  Thus we ignore both "defer recover()" and
	// "defer f() -> g() -> recover()".
	if caller.i.mode&DisableRecover == 0 &&
		caller != nil && !caller.panicking &&
		caller.caller != nil && caller.caller.panicking {
		caller.caller.panicking = false
		p := caller.caller.panic
		caller.caller.panic = nil

		// TODO(adonovan): support runtime.Goexit.
		switch p := p.(type) {
		case targetPanic:
			// The target program explicitly called panic().
			return p.v
		case runtimeErr:
			return iface{caller.i.runtimeErrorString, string(p)}
		case string:
			// The interpreter explicitly called panic().
			return iface{caller.i.runtimeErrorString, p}
		default:
			panic(fmt.Sprintf("unexpected panic type %T in target call to recover()", p))
		}
	}
	return iface{}
}

// symElemRef is &elems[idx] for a symbolic idx whose only uses are loads; the
// load becomes an ite chain (no fork per index value).
type symElemRef struct {
	elems []value
	idx   *sym.Term
	it    types.Type
}

// onlyLoaded reports whether every use of the address is a load.
func onlyLoaded(instr *ssa.IndexAddr) bool {
	refs := instr.Referrers()
	if refs == nil || len(*refs) == 0 {
		return false
	}
	for _, r := range *refs {
		switch r := r.(type) {
		case *ssa.UnOp:
			if r.Op != token.MUL {
				return false
			}
		case *ssa.DebugRef:
		default:
			return false
		}
	}
	return true
}

// fnInfo numbers the SSA values of a function so that a frame's environment
// is a slice instead of a map.
type fnInfo struct {
	index map[ssa.Value]int
	n     int
}

var (
	fnInfoMu    sync.RWMutex
	fnInfoCache = map[*ssa.Function]*fnInfo{}
)

func (i *interpreter) infoOf(fn *ssa.Function) *fnInfo {
	if fi, ok := i.fnInfos[fn]; ok {
		return fi
	}
	fnInfoMu.RLock()
	fi, ok := fnInfoCache[fn]
	fnInfoMu.RUnlock()
	if ok {
		i.fnInfos[fn] = fi
		return fi
	}
	fnInfoMu.Lock()
	defer fnInfoMu.Unlock()
	if fi, ok := fnInfoCache[fn]; ok {
		i.fnInfos[fn] = fi
		return fi
	}
	nv := len(fn.Params) + len(fn.FreeVars) + len(fn.Locals)
	for _, b := range fn.Blocks {
		nv += len(b.Instrs)
	}
	fi = &fnInfo{index: make(map[ssa.Value]int, nv)}
	defer func() { fnInfoCache[fn] = fi }()
	add := func(v ssa.Value) {
		if _, ok := fi.index[v]; !ok {
			fi.index[v] = fi.n
			fi.n++
		}
	}
	for _, p := range fn.Params {
		add(p)
	}
	for _, fv := range fn.FreeVars {
		add(fv)
	}
	for _, l := range fn.Locals {
		add(l)
	}
	for _, b := range fn.Blocks {
		for _, in := range b.Instrs {
			if v, ok := in.(ssa.Value); ok {
				add(v)
			}
		}
	}
	i.fnInfos[fn] = fi
	return fi
}

func (fr *frame) set(key ssa.Value, v value) {
	fr.env[fr.info.index[key]] = v
}

// stackString renders the interpreted call stack (innermost first).
func (i *interpreter) stackString() string {
	var sb strings.Builder
	for fr, n := i.cur, 0; fr != nil && n < 40; fr, n = fr.caller, n+1 {
		sb.WriteString("  " + fr.fn.String() + "\n")
	}
	return sb.String()
}

// fnName caches (*ssa.Function).String(), which walks the receiver's type on
// every call.
var fnNameCache sync.Map // *ssa.Function -> string

func fnName(fn *ssa.Function) string {
	if s, ok := fnNameCache.Load(fn); ok {
		return s.(string)
	}
	s := fn.String()
	fnNameCache.Store(fn, s)
	return s
}
