package interp

// Minimal model of unsafe.Pointer: a pointer keeps (backing elements, index,
// element type); reinterpreting it as *[N]U and slicing yields a byteView whose
// element reads/writes assemble/scatter the backing elements little-endian.

import (
	"fmt"
	"go/types"
	"unsafe"

	"golang.org/x/tools/go/ssa"

	"verif/engine/sym"
)

// upointer is the value of an unsafe.Pointer derived from &slice[i] / &array[i] / &x.
type upointer struct {
	cell *value     // the addressed cell (always set)
	back []value    // backing elements starting at the addressed cell, if known
	elem types.Type // element type of the addressed cell
}

// byteView is a slice of element type `as` laid over backing elements of type
// `elem` (both fixed-size numeric kinds).
type byteView struct {
	back   []value // backing cells
	elem   types.Type
	esz    int // size of a backing element in bytes
	as     types.Type
	asz    int // size of a view element in bytes
	off    int // byte offset of view[0] in back
	n      int // number of view elements
	extent int // bytes available in back from offset 0
}

// addrToUnsafe converts a typed pointer to unsafe.Pointer, recovering the
// backing elements when the pointer is &slice[k] or &array[k].
func (i *interpreter) addrToUnsafe(fr *frame, instr *ssa.Convert) value {
	elem := instr.X.Type().Underlying().(*types.Pointer).Elem()
	x := fr.get(instr.X)
	p, ok := x.(*value)
	if !ok {
		unsupported("unsafe.Pointer(%T)", x)
	}
	if p == nil {
		return upointer{}
	}
	if ia, ok := instr.X.(*ssa.IndexAddr); ok {
		base := fr.get(ia.X)
		idx, isConc := fr.get(ia.Index).(int)
		if !isConc {
			if _, isSym := fr.get(ia.Index).(*sym.Term); !isSym {
				idx = int(asInt64(fr.get(ia.Index)))
				isConc = true
			}
		}
		if isConc {
			switch b := base.(type) {
			case []value:
				if idx >= 0 && idx < len(b) && &b[idx] == p {
					return upointer{cell: p, elem: elem, back: b[idx:len(b):len(b)]}
				}
			case *value:
				if a, ok := (*b).(array); ok && idx >= 0 && idx < len(a) && &a[idx] == p {
					return upointer{cell: p, elem: elem, back: []value(a)[idx:]}
				}
			}
		}
	}
	// a single addressable cell
	return upointer{cell: p, elem: elem, back: unsafe.Slice(p, 1)}
}

func toUnsafePointer(i *interpreter, x value, elem types.Type) value {
	p, ok := x.(*value)
	if !ok {
		unsupported("unsafe.Pointer(%T)", x)
	}
	return upointer{cell: p, elem: elem, back: i.findBacking(p)}
}

// findBacking is filled by IndexAddr bookkeeping: the slice tail that starts at p.
func (i *interpreter) findBacking(p *value) []value {
	if p == nil {
		return nil
	}
	if b, ok := i.backing[p]; ok {
		return b
	}
	return nil
}

func fromUnsafePointer(i *interpreter, x value, dst types.Type) value {
	up, ok := x.(upointer)
	if !ok {
		if x == nil {
			return zero(dst)
		}
		unsupported("conversion from unsafe.Pointer holding %T", x)
	}
	pt, ok := dst.Underlying().(*types.Pointer)
	if !ok {
		unsupported("unsafe.Pointer -> %s", dst)
	}
	if types.Identical(pt.Elem(), up.elem) {
		return up.cell
	}
	// *[N]U over the backing elements
	if arr, ok := pt.Elem().Underlying().(*types.Array); ok {
		if up.back == nil {
			unsupported("unsafe reinterpretation of a cell with unknown backing array")
		}
		esz := int(i.sizes.Sizeof(up.elem))
		asz := int(i.sizes.Sizeof(arr.Elem()))
		if !isFixedNumeric(up.elem) || !isFixedNumeric(arr.Elem()) {
			unsupported("unsafe reinterpretation %s -> %s", up.elem, arr.Elem())
		}
		return &byteView{back: up.back, elem: up.elem, esz: esz, as: arr.Elem(), asz: asz, off: 0,
			n: int(arr.Len()), extent: len(up.back) * esz}
	}
	unsupported("unsafe.Pointer(%s) -> %s", up.elem, dst)
	return nil
}

func isFixedNumeric(t types.Type) bool {
	b := basicOf(t)
	if b == nil {
		return false
	}
	switch b.Kind() {
	case types.Int8, types.Int16, types.Int32, types.Int64, types.Uint8, types.Uint16, types.Uint32, types.Uint64,
		types.Float32, types.Float64, types.Int, types.Uint, types.Uintptr:
		return true
	}
	return false
}

func (v *byteView) length() int { return v.n }

// slice implements view[lo:hi:max]; slicing beyond the true allocation is a
// fatal unsafe out-of-bounds access.
func (v *byteView) slice(i *interpreter, lo, hi, max value) value {
	l, h := 0, v.n
	if lo != nil {
		l = int(asInt64(lo))
	}
	if hi != nil {
		h = int(asInt64(hi))
	}
	if l < 0 || h < l || h > v.n {
		panic(runtimeErr(fmt.Sprintf("slice bounds out of range [%d:%d] with capacity %d", l, h, v.n)))
	}
	if v.off+h*v.asz > v.extent {
		if ps := i.ps; ps != nil {
			ps.violated("fatal", fmt.Sprintf("unsafe slice covers %d bytes but the allocation has %d", v.off+h*v.asz, v.extent), ps.cx.True())
			ps.fail("done", "unsafe out-of-bounds slice")
		}
		panic(abort{"fatal", "unsafe out-of-bounds slice"})
	}
	nv := *v
	nv.off = v.off + l*v.asz
	nv.n = h - l
	return &nv
}

// byteAt returns byte k (0-based from back[0]) as a term or uint8.
func (v *byteView) byteAt(i *interpreter, k int) value {
	e := v.back[k/v.esz]
	sh := uint((k % v.esz) * 8)
	if t, ok := e.(*sym.Term); ok {
		return norm(types.Typ[types.Uint8], t.C.Extract(t, int(sh)+7, int(sh)))
	}
	cx := sym.NewCtx()
	t := mustTerm(cx, e)
	return uint8(t.Val >> sh)
}

func (v *byteView) get(i *interpreter, idx int) value {
	if idx < 0 || idx >= v.n {
		panic(runtimeErr(fmt.Sprintf("index out of range [%d] with length %d", idx, v.n)))
	}
	base := v.off + idx*v.asz
	if base+v.asz > v.extent {
		panic(abort{"fatal", "unsafe out-of-bounds read"})
	}
	// assemble little-endian
	var cx *sym.Ctx
	bs := make([]value, v.asz)
	for k := 0; k < v.asz; k++ {
		bs[k] = v.byteAt(i, base+k)
		if t, ok := bs[k].(*sym.Term); ok {
			cx = t.C
		}
	}
	if cx == nil {
		cx = sym.NewCtx()
	}
	var acc *sym.Term
	for k := v.asz - 1; k >= 0; k-- {
		bt := mustTerm(cx, bs[k])
		if acc == nil {
			acc = bt
		} else {
			acc = cx.Concat(acc, bt)
		}
	}
	return norm(v.as, acc)
}

func (v *byteView) put(i *interpreter, idx int, val value) {
	if idx < 0 || idx >= v.n {
		panic(runtimeErr(fmt.Sprintf("index out of range [%d] with length %d", idx, v.n)))
	}
	base := v.off + idx*v.asz
	if base+v.asz > v.extent {
		panic(abort{"fatal", "unsafe out-of-bounds write"})
	}
	var cx *sym.Ctx
	if t, ok := val.(*sym.Term); ok {
		cx = t.C
	}
	for k := 0; k < v.asz; k++ {
		if t, ok := v.back[(base+k)/v.esz].(*sym.Term); ok {
			cx = t.C
		}
	}
	if cx == nil {
		cx = sym.NewCtx()
	}
	vt := mustTerm(cx, val)
	for k := 0; k < v.asz; k++ {
		bk := cx.Extract(vt, k*8+7, k*8)
		ci := (base + k) / v.esz
		sh := ((base + k) % v.esz) * 8
		old := mustTerm(cx, v.back[ci])
		w := old.W
		var nw *sym.Term
		if w == 8 {
			nw = bk
		} else {
			m := cx.Const(w, ^(uint64(0xff) << uint(sh)))
			nw = cx.Bin(sym.OpBvOr, cx.Bin(sym.OpBvAnd, old, m), cx.Bin(sym.OpShl, cx.Zext(bk, w), cx.Const(w, uint64(sh))))
		}
		i.set(&v.back[ci], norm(v.elem, nw))
	}
}

func (v *byteView) readAll(i *interpreter) []value {
	r := make([]value, v.n)
	for k := range r {
		r[k] = v.get(i, k)
	}
	return r
}

func (v *byteView) copyIn(i *interpreter, src []value) int {
	n := v.n
	if len(src) < n {
		n = len(src)
	}
	for k := 0; k < n; k++ {
		v.put(i, k, src[k])
	}
	return n
}

// viewRef is the address of one view element (&view[i]).
type viewRef struct {
	v   *byteView
	idx int
}

func (v *byteView) elemRef(idx int) value { return viewRef{v, idx} }

func loadSpecial(x value, t types.Type) value {
	switch x := x.(type) {
	case viewRef:
		return x.v.get(nil, x.idx)
	case symElemRef:
		ps := psOf(x.idx)
		v := ps.i.indexRead(x.elems, x.idx, x.it)
		if _, isStruct := t.Underlying().(*types.Struct); isStruct {
			cell := v
			return load(t, &cell)
		}
		return v
	}
	panic(fmt.Sprintf("load through %T", x))
}

func storeSpecial(i *interpreter, addr value, t types.Type, v value) {
	switch a := addr.(type) {
	case viewRef:
		a.v.put(i, a.idx, v)
		return
	}
	panic(fmt.Sprintf("store through %T", addr))
}
