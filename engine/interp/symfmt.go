package interp

// A symbolic model of fmt.Sprintf for integer verbs (%v %d %b %o %x %X with an
// optional zero-padded width), which is what the CTE encoder uses for numbers.
// The digit count (and the sign) fork; every digit is a term, so the resulting
// text is a string with concrete length and symbolic bytes and everything
// downstream (column tracking, parsing it back) runs unmodified. The model is
// validated against the host fmt by the native replay of every counterexample
// and by the engine self-test.

import (
	"fmt"
	"go/types"
	"strings"

	"verif/engine/solver"
	"verif/engine/sym"
)

type fmtVerb struct {
	lit   string // literal text before the verb
	verb  byte   // 0 for trailing literal
	zero  bool
	width int
	prec  int    // -1 = none
	spec  string // the verb spec as written, e.g. "%08b"
}

func parseFormat(f string) ([]fmtVerb, bool) {
	var out []fmtVerb
	var lit strings.Builder
	for k := 0; k < len(f); k++ {
		c := f[k]
		if c != '%' {
			lit.WriteByte(c)
			continue
		}
		if k+1 < len(f) && f[k+1] == '%' {
			lit.WriteByte('%')
			k++
			continue
		}
		start := k
		k++
		v := fmtVerb{lit: lit.String()}
		lit.Reset()
		if k < len(f) && f[k] == '0' {
			v.zero = true
			k++
		}
		for k < len(f) && f[k] >= '0' && f[k] <= '9' {
			v.width = v.width*10 + int(f[k]-'0')
			k++
		}
		v.prec = -1
		if k < len(f) && f[k] == '.' {
			k++
			v.prec = 0
			for k < len(f) && f[k] >= '0' && f[k] <= '9' {
				v.prec = v.prec*10 + int(f[k]-'0')
				k++
			}
		}
		if k >= len(f) {
			return nil, false
		}
		v.verb = f[k]
		v.spec = f[start : k+1]
		switch v.verb {
		case 'v', 'd', 'b', 'o', 'x', 'X', 's', 'c', 'q', 'g', 'f', 'e', 't':
		default:
			return nil, false
		}
		out = append(out, v)
	}
	out = append(out, fmtVerb{lit: lit.String()})
	return out, true
}

// symFormatInt renders a symbolic integer. It forks on the sign and on the
// number of digits.
func symFormatInt(t *sym.Term, signed bool, base int, zero bool, width int, upper bool) []value {
	ps := psOf(t)
	cx := ps.cx
	w := t.W
	neg := false
	mag := t
	if signed {
		if ps.branch(cx.Cmp(sym.OpSlt, t, cx.Const(w, 0))) {
			neg = true
			mag = cx.Neg(t)
		}
	}
	var digits []value // most significant first
	u8 := types.Typ[types.Uint8]
	digitChar := func(d *sym.Term) value { // d has width w, value < base
		d8 := cx.Extract(d, 7, 0)
		if w < 8 {
			d8 = cx.Zext(d, 8)
		}
		if base <= 10 {
			return norm(u8, cx.Bin(sym.OpAdd, d8, cx.Const(8, '0')))
		}
		a := byte('a')
		if upper {
			a = 'A'
		}
		isDec := cx.Cmp(sym.OpUlt, d8, cx.Const(8, 10))
		return norm(u8, cx.Bin(sym.OpAdd, d8, cx.Ite(isDec, cx.Const(8, '0'), cx.Const(8, uint64(a-10)))))
	}
	switch base {
	case 2, 8, 16:
		bits := map[int]int{2: 1, 8: 3, 16: 4}[base]
		maxDigits := (w + bits - 1) / bits
		n := 1
		for k := maxDigits; k > 1; k-- {
			// does the value need at least k digits?
			sh := (k - 1) * bits
			if ps.branch(cx.Not(cx.Eq(cx.Bin(sym.OpLShr, mag, cx.Const(w, uint64(sh))), cx.Const(w, 0)))) {
				n = k
				break
			}
		}
		for k := n - 1; k >= 0; k-- {
			d := cx.Bin(sym.OpBvAnd, cx.Bin(sym.OpLShr, mag, cx.Const(w, uint64(k*bits))), cx.Const(w, uint64(base-1)))
			digits = append(digits, digitChar(d))
		}
	case 10:
		// work in a width that can hold base
		ww := w
		m := mag
		if ww < 8 {
			ww = 8
			m = cx.Zext(mag, 8)
		}
		pow := []uint64{1}
		for len(pow) < 20 {
			nx := pow[len(pow)-1] * 10
			if ww < 64 && nx >= uint64(1)<<uint(ww) {
				break
			}
			if nx/10 != pow[len(pow)-1] {
				break
			}
			pow = append(pow, nx)
		}
		n := 1
		for k := len(pow) - 1; k >= 1; k-- {
			if ps.branch(cx.Cmp(sym.OpUle, cx.Const(ww, pow[k]), m)) {
				n = k + 1
				break
			}
		}
		for k := n - 1; k >= 0; k-- {
			q := cx.Bin(sym.OpUDiv, m, cx.Const(ww, pow[k]))
			d := cx.Bin(sym.OpURem, q, cx.Const(ww, 10))
			d8 := cx.Extract(d, 7, 0)
			digits = append(digits, norm(u8, cx.Bin(sym.OpAdd, d8, cx.Const(8, '0'))))
		}
	default:
		unsupported("symbolic formatting in base %d", base)
	}
	var out []value
	if neg {
		out = append(out, uint8('-'))
	}
	if zero {
		for len(out)+len(digits) < width {
			out = append(out, uint8('0'))
		}
	}
	out = append(out, digits...)
	if !zero {
		for len(out) < width { // space padding on the left
			out = append([]value{uint8(' ')}, out...)
		}
	}
	return out
}

// symFormatFixed renders a symbolic float with %.<prec>f (prec <= 3): the
// digits are those of round-half-even(|x| * 10^prec) on the exact binary value
// (sym.FFixedScaled, tested against strconv); the sign and the number of
// integer digits fork. Non-finite values and magnitudes >= 2^62 / 10^prec are
// outside the model (the path is abandoned as unsupported if they are feasible).
func symFormatFixed(t *sym.Term, prec int) []value {
	ps := psOf(t)
	cx := ps.cx
	scale := uint64(1)
	for k := 0; k < prec; k++ {
		scale *= 10
	}
	ok, neg, q := cx.FFixedScaled(t, scale)
	if !ps.branch(ok) {
		unsupported("fixed-point formatting of a non-finite or huge symbolic float")
	}
	// narrow the digits to the smallest width the path allows (cheaper division)
	w := 64
	for _, k := range []int{16, 32} {
		if ps.check(cx.Cmp(sym.OpUle, cx.Const(64, uint64(1)<<uint(k)), q)) == solver.Unsat {
			w = k
			break
		}
	}
	if w < 64 {
		q = cx.Extract(q, w-1, 0)
	}
	var out []value
	if ps.branch(neg) {
		out = append(out, uint8('-'))
	}
	ip := cx.Bin(sym.OpUDiv, q, cx.Const(w, scale))
	out = append(out, symFormatInt(ip, false, 10, false, 0, false)...)
	if prec > 0 {
		out = append(out, uint8('.'))
		fp := cx.Bin(sym.OpURem, q, cx.Const(w, scale))
		u8 := types.Typ[types.Uint8]
		pw := scale / 10
		for k := 0; k < prec; k++ {
			d := cx.Bin(sym.OpURem, cx.Bin(sym.OpUDiv, fp, cx.Const(w, pw)), cx.Const(w, 10))
			out = append(out, norm(u8, cx.Bin(sym.OpAdd, cx.Extract(d, 7, 0), cx.Const(8, '0'))))
			pw /= 10
		}
	}
	return out
}

// symSprintf returns (text bytes, true) when the format and arguments are
// within the model, else (nil, false).
func (i *interpreter) symSprintf(format string, args []value) ([]value, bool) {
	verbs, ok := parseFormat(format)
	if !ok {
		return nil, false
	}
	var out []value
	ai := 0
	for _, v := range verbs {
		out = append(out, strToValues(v.lit)...)
		if v.verb == 0 {
			break
		}
		if ai >= len(args) {
			return nil, false
		}
		a, isIface := args[ai].(iface)
		ai++
		if !isIface {
			return nil, false
		}
		if t, isSym := a.v.(*sym.Term); isSym {
			b := basicOf(a.t)
			if b != nil && b.Info()&types.IsFloat != 0 && v.verb == 'f' && v.prec >= 0 && v.prec <= 3 && v.width == 0 && !v.zero {
				if _, named := a.t.(*types.Named); named && hasStringer(a.t) {
					return nil, false
				}
				out = append(out, symFormatFixed(t, v.prec)...)
				continue
			}
			if b == nil || b.Info()&types.IsInteger == 0 || v.prec >= 0 {
				return nil, false
			}
			if _, named := a.t.(*types.Named); named && hasStringer(a.t) {
				return nil, false
			}
			base := 10
			switch v.verb {
			case 'v', 'd':
			case 'b':
				base = 2
			case 'o':
				base = 8
			case 'x', 'X':
				base = 16
			default:
				return nil, false
			}
			out = append(out, symFormatInt(t, isSignedKind(b.Kind()), base, v.zero, v.width, v.verb == 'X')...)
			continue
		}
		hv, ok := hostValue(a)
		if !ok {
			if ss, isS := a.v.(sstr); isS && (v.verb == 'v' || v.verb == 's') && v.width == 0 {
				out = append(out, []value(ss)...)
				continue
			}
			return nil, false
		}
		out = append(out, strToValues(fmt.Sprintf(v.spec, hv))...)
	}
	if ai != len(args) {
		return nil, false
	}
	return out, true
}
