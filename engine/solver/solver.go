// Package solver keeps one SMT solver process alive and talks SMT-LIB2 to it
// over pipes.
package solver

import (
	"bufio"
	"fmt"
	"io"
	"os/exec"
	"strconv"
	"strings"
	"sync"
	"syscall"
	"time"
)

type Result int

const (
	Sat Result = iota
	Unsat
	Unknown
)

func (r Result) String() string { return [...]string{"sat", "unsat", "unknown"}[r] }

type Kind string

const (
	Z3    Kind = "z3"
	Z3New Kind = "z3-new"
	CVC5  Kind = "cvc5"
)

type Stats struct {
	Queries  int
	Sat      int
	Unsat    int
	Unknown  int
	Errors   int
	Killed   int
	SendTime time.Duration
	GetTime  time.Duration
	Time     time.Duration
	MaxQuery time.Duration
}

type Solver struct {
	Kind      Kind
	TimeoutMS int
	cmd       *exec.Cmd
	in        io.WriteCloser
	out       *bufio.Reader
	lines     chan string
	Stats     Stats
	Log       io.Writer // optional transcript
	LastError string
	Lost      bool // the process was restarted: all solver-side state of the current path is gone
	mu        sync.Mutex
	seq       int
	// Transcript accumulates everything sent since the last ResetTranscript
	// (used to dump stand-alone scripts of queries that came back unknown).
	Transcript   strings.Builder
	KeepScript   bool
}

func (s *Solver) ResetTranscript() { s.Transcript.Reset() }

func Start(kind Kind, timeoutMS int) (*Solver, error) {
	s := &Solver{Kind: kind, TimeoutMS: timeoutMS}
	if err := s.start(); err != nil {
		return nil, err
	}
	return s, nil
}

func (s *Solver) start() error {
	var cmd *exec.Cmd
	switch s.Kind {
	case Z3:
		cmd = exec.Command("z3", "-in", "-smt2")
	case Z3New:
		cmd = exec.Command("z3-new", "-in", "-smt2")
	case CVC5:
		cmd = exec.Command("cvc5", "--incremental", "--lang=smt2", "--produce-models", fmt.Sprintf("--tlimit-per=%d", s.TimeoutMS), "--fp-exp")
	default:
		return fmt.Errorf("unknown solver %q", s.Kind)
	}
	in, err := cmd.StdinPipe()
	if err != nil {
		return err
	}
	out, err := cmd.StdoutPipe()
	if err != nil {
		return err
	}
	cmd.Stderr = cmd.Stdout
	cmd.SysProcAttr = &syscall.SysProcAttr{Pdeathsig: syscall.SIGKILL}
	if err := cmd.Start(); err != nil {
		return err
	}
	s.cmd, s.in, s.out = cmd, in, bufio.NewReaderSize(out, 1<<16)
	lines := make(chan string, 256)
	s.lines = lines
	rd := s.out
	go func() {
		defer close(lines)
		for {
			line, err := rd.ReadString('\n')
			if line != "" {
				lines <- line
			}
			if err != nil {
				return
			}
		}
	}()
	s.prelude()
	return nil
}

func (s *Solver) prelude() {
	switch s.Kind {
	case Z3, Z3New:
		s.Send(fmt.Sprintf("(set-option :timeout %d)\n(set-option :produce-models true)\n", s.TimeoutMS))
	case CVC5:
		s.Send("(set-logic ALL)\n")
	}
}

func (s *Solver) Close() {
	if s.cmd != nil {
		s.in.Close()
		done := make(chan struct{})
		go func() { s.cmd.Wait(); close(done) }()
		select {
		case <-done:
		case <-time.After(500 * time.Millisecond):
			s.cmd.Process.Kill()
			<-done
		}
		s.cmd = nil
	}
}

// Restart kills the process and starts a fresh one (all state lost).
func (s *Solver) Restart() error {
	if s.cmd != nil {
		s.cmd.Process.Kill()
		s.cmd.Wait()
		s.cmd = nil
	}
	return s.start()
}

// Send writes raw commands without expecting output.
func (s *Solver) Send(text string) {
	if s.Log != nil {
		io.WriteString(s.Log, text)
	}
	if s.KeepScript {
		s.Transcript.WriteString(text)
	}
	t0 := time.Now()
	io.WriteString(s.in, text)
	s.Stats.SendTime += time.Since(t0)
}

// roundTrip sends text followed by an echo sentinel and returns all output
// lines produced before the sentinel.
func (s *Solver) roundTrip(text string) ([]string, error) {
	s.seq++
	sentinel := fmt.Sprintf("@@done%d", s.seq)
	s.Send(text + "(echo \"" + sentinel + "\")\n")
	var lines []string
	// hard watchdog: solvers do not always honour their own timeout
	limit := time.Duration(s.TimeoutMS)*time.Millisecond*2 + 10*time.Second
	timer := time.NewTimer(limit)
	defer timer.Stop()
	for {
		select {
		case line, ok := <-s.lines:
			if !ok {
				return lines, fmt.Errorf("solver %s died (output so far: %v)", s.Kind, lines)
			}
			line = strings.TrimRight(line, "\r\n")
			if strings.Trim(line, "\"") == sentinel {
				return lines, nil
			}
			if line != "" {
				lines = append(lines, line)
			}
		case <-timer.C:
			s.Stats.Killed++
			return lines, fmt.Errorf("solver %s exceeded the hard limit of %v and was killed", s.Kind, limit)
		}
	}
}

// Check runs (check-sat) after sending pre. Any "(error" line makes the
// result Unknown and is recorded in LastError.
func (s *Solver) Check(pre string) Result {
	t0 := time.Now()
	lines, err := s.roundTrip(pre + "(check-sat)\n")
	d := time.Since(t0)
	s.Stats.Queries++
	s.Stats.Time += d
	if d > s.Stats.MaxQuery {
		s.Stats.MaxQuery = d
	}
	res := Unknown
	bad := false
	if err != nil {
		bad = true
		s.LastError = err.Error()
		s.Restart()
		s.Lost = true
	}
	for _, l := range lines {
		switch {
		case strings.HasPrefix(l, "(error"):
			bad = true
			s.LastError = l
		case l == "sat":
			res = Sat
		case l == "unsat":
			res = Unsat
		case l == "unknown" || l == "timeout":
			res = Unknown
		}
	}
	if bad {
		s.Stats.Errors++
		res = Unknown
	}
	switch res {
	case Sat:
		s.Stats.Sat++
	case Unsat:
		s.Stats.Unsat++
	default:
		s.Stats.Unknown++
	}
	return res
}

// GetValues asks for the model values of the given expressions (after a Sat).
func (s *Solver) GetValues(exprs []string) (map[string]uint64, error) {
	res := map[string]uint64{}
	if len(exprs) == 0 {
		return res, nil
	}
	// one get-value per expression keeps parsing trivial
	t0 := time.Now()
	defer func() { s.Stats.GetTime += time.Since(t0) }()
	for _, e := range exprs {
		lines, err := s.roundTrip("(get-value (" + e + "))\n")
		if err != nil {
			s.Restart()
			s.Lost = true
			return nil, err
		}
		txt := strings.Join(lines, " ")
		if strings.Contains(txt, "(error") {
			return nil, fmt.Errorf("get-value %s: %s", e, txt)
		}
		v, err := parseValue(txt)
		if err != nil {
			return nil, fmt.Errorf("get-value %s: %v in %q", e, err, txt)
		}
		res[e] = v
	}
	return res, nil
}

// parseValue extracts the value from "((expr VALUE))".
func parseValue(txt string) (uint64, error) {
	txt = strings.TrimSpace(txt)
	// strip the trailing "))"
	if !strings.HasSuffix(txt, "))") {
		return 0, fmt.Errorf("unexpected shape")
	}
	body := strings.TrimSpace(txt[:len(txt)-2])
	// value is the last token or the last parenthesised group
	if strings.HasSuffix(body, ")") {
		// (_ bvN w)
		i := strings.LastIndex(body, "(_ bv")
		if i < 0 {
			return 0, fmt.Errorf("unknown value form")
		}
		f := strings.Fields(body[i+5 : len(body)-1])
		return strconv.ParseUint(f[0], 10, 64)
	}
	i := strings.LastIndexAny(body, " \t(")
	tok := body[i+1:]
	switch {
	case tok == "true":
		return 1, nil
	case tok == "false":
		return 0, nil
	case strings.HasPrefix(tok, "#x"):
		return strconv.ParseUint(tok[2:], 16, 64)
	case strings.HasPrefix(tok, "#b"):
		return strconv.ParseUint(tok[2:], 2, 64)
	}
	return 0, fmt.Errorf("unknown value token %q", tok)
}

// OneShot runs a stand-alone script (ending in one check-sat) in a fresh
// process of the given solver and returns the verdict of the last check-sat.
func OneShot(kind Kind, script string, timeoutMS int) (Result, error) {
	var cmd *exec.Cmd
	secs := timeoutMS/1000 + 1
	switch kind {
	case Z3:
		cmd = exec.Command("z3", "-in", "-smt2", fmt.Sprintf("-T:%d", secs))
	case Z3New:
		cmd = exec.Command("z3-new", "-in", "-smt2", fmt.Sprintf("-T:%d", secs))
	case CVC5:
		cmd = exec.Command("cvc5", "--lang=smt2", fmt.Sprintf("--tlimit=%d", timeoutMS), "--fp-exp")
		script = "(set-logic ALL)\n" + script
	default:
		return Unknown, fmt.Errorf("unknown solver %q", kind)
	}
	cmd.Stdin = strings.NewReader(script)
	cmd.SysProcAttr = &syscall.SysProcAttr{Pdeathsig: syscall.SIGKILL}
	done := make(chan struct{})
	var out []byte
	var err error
	go func() { out, err = cmd.CombinedOutput(); close(done) }()
	select {
	case <-done:
	case <-time.After(time.Duration(timeoutMS)*time.Millisecond + 15*time.Second):
		if cmd.Process != nil {
			cmd.Process.Kill()
		}
		<-done
		return Unknown, fmt.Errorf("%s: hard timeout", kind)
	}
	res := Unknown
	for _, l := range strings.Split(string(out), "\n") {
		l = strings.TrimSpace(l)
		switch {
		case strings.HasPrefix(l, "(error"):
			return Unknown, fmt.Errorf("%s: %s", kind, l)
		case l == "sat":
			res = Sat
		case l == "unsat":
			res = Unsat
		case l == "unknown" || l == "timeout":
			res = Unknown
		}
	}
	_ = err
	return res, nil
}
