# Claims table (exec'd by gen_manifest.py).
claim("C01",
      "Bounded symbolic round trip rules->cbe.Encoder->bytes->cbe.Decoder->rules with every payload bit of the templated events symbolic; z3 shows the decoded stream equals the sent one for all values inside the bounds.",
      "Templates: ints (3 forms), floats, typed arrays whole/chunked around the short-form limit, strings/resource ids whole/array/chunked, markers+references, record types+records, nodes, edges, media, custom binary, UID, NaN, decimal floats; positions top/list/key/value. Outside: big.Int/big.Float/apd.Decimal payloads, times, several symbolic values per slot, nesting > 2, long arrays.",
      "DESIGN.md §5 C01")
claim("C22",
      "Symbolic execution of the real cbe.Encoder on a fully symbolic 64-bit integer / float bit pattern against a spec-derived size oracle (unsat for all 2^64 values per entry), string and typed-array headers around the short-form limit, and decode-then-encode idempotence on encoder-produced documents with symbolic payloads.",
      "Oracle = CBE size table written from the specification (DESIGN.md A.1). Idempotence covers 8 document templates; big integers beyond 64 bits and times are not generated.",
      "DESIGN.md §5 C22")
na("C03", "Both directions pass through the CTE decoder = ANTLR ATN interpreter over symbolic characters (about 40 kLoC generated tables + runtime); token shapes are grammar data, not Go code the engine can execute.")
na("C17", "Goroutine interleavings over sync.Map, WaitGroup and atomics: the engine has no concurrency semantics.")
claim("C10",
      "Every event history up to the bound (structural alphabet forked by the engine, ids/integers/version as solver variables) is run through the real rules validator and a reference automaton written from the statement; after every event z3 shows the two verdicts agree.",
      "Reference automaton = DESIGN.md A.2 (harness/C10). Bounds: history length 5 quick / 6 thorough. Markers/references (C13), arrays (C11), comments/padding not generated.",
      "DESIGN.md §5 C10")
claim("C12",
      "Two keys of one map / record type in every pair of event forms (PosInt, NegInt, Int, BigInt<=2 words, string/RID whole, as array, chunked with any split, UID, bool) with fully symbolic values: z3 shows the second key is rejected iff both denote the same value.",
      "Oracle: integers by sign and 128-bit magnitude, strings by bytes, kinds distinct. NegativeInt(0) excluded (denotes -0.0). Times not generated.",
      "DESIGN.md §5 C12")
claim("C21",
      "The real iterator Session/struct iterator and builder Session/BuilderEventReceiver/structBuilder run on the engine's reflect emulation. Marshal side: a struct type with every tag (omit, omit_empty, omit_zero, omit_never, name=, order=), an embedded struct, an unexported field and an acronym name, with symbolic field contents (uint64, string, []byte, *uint64), both name styles and three default omit behaviours; z3 shows the events are exactly the kept fields, once each, under the configured or tagged name, in tag order, validated by the real rules. Unmarshal side: maps whose keys are strings of 1..4 symbolic ASCII bytes are built into a struct; z3 shows each field holds the value of the last key that names it (exactly, or ignoring case, '_' and ' ' when case-insensitive matching is on), keys that match no field are skipped, other fields undisturbed.",
      "Struct *types* are fixed Go types (one per side): the quantifier over random struct types is not covered, only their contents, keys and configuration are symbolic. sync.Map/WaitGroup run in a sequential model. In case-sensitive mode the statement is silent about a key that equals a field's folded name; that case is left undecided. Non-ASCII keys are outside the bound.",
      "DESIGN.md §5 C21")
claim("C06",
      "Rules-valid event streams from templates with symbolic payloads (integers in all three event forms over all 64-bit values, floats, strings, typed arrays whole and chunked, nested lists/maps, nodes, edges, record types + records, markers with backward/forward references to scalars, lists, maps and as map keys, comments and padding), and every event history of <= 5 events (6 thorough) over 10 event kinds that the real validator accepts as a complete acyclic document, are unmarshaled with no template by the real builder Session/BuilderEventReceiver (interface, list, map, record, marker builders, reference filler) and marshaled again by the real iterator Session; z3 shows unmarshal and marshal never fail and the two value trees are equal (integers by value, maps unordered, records as maps, references replaced by targets, comments dropped).",
      "Streams are delivered as events after the real rules validator accepted them; the byte decoders in front are covered by C01/C07/C09. reflect/sync.Map/WaitGroup are the engine's emulation / sequential model. Big numbers, times, media, custom types, resource ids, NaN, deeper nesting and longer histories are not generated. Open finding: documents containing an edge cannot be unmarshaled (KF-C06-edge-end-rejected).",
      "DESIGN.md §5 C06")
claim("C20",
      "Pointer graphs with recursion support on: 3 struct nodes with two pointer fields each (all 4^6 topologies: nil, self loops, cycles, shared targets), 3 nodes with slices of 0..2 pointers, 2..3 nodes with map[string]*node fields; payloads are solver variables. The real iterator Session (go-duplicates pointer scan, marker/reference emission) marshals the graph, the real rules validate it, the real builder Session (pointer/struct/slice/map builders, reference filler) unmarshals it into the same type, also through the real CBE encoder and decoder; every path must return (step budget = termination) and a simultaneous walk shows the result is isomorphic: nil, shared and cyclic pointers in the same places, all payloads equal.",
      "Topologies are chosen by engine-enumerated selectors (the solver decides payloads and path feasibility). reflect (Value.Pointer = identity of the engine's heap cell), sync.Map, WaitGroup are the engine's emulation / sequential model. CTE in between (ANTLR), interface-typed nodes and graphs larger than 3 nodes are outside the bound.",
      "DESIGN.md §5 C20")

# everything else that is planned but has no check yet
PLANNED = ["C%02d" % k for k in range(1, 30)]
claim("C11",
      "String-like and typed arrays with every content byte symbolic (ill-formed UTF-8 included), every chunking into <= 2 chunks (zero-length included) and every split of a chunk's bytes into <= 2 data events, through the real rules validator; z3 shows accepted <=> every chunk is valid UTF-8 on its own, and typed arrays are accepted for every split; count mismatches and non-final last chunks are rejected.",
      "Oracle: unicode/utf8.Valid per chunk (executed symbolically). Bounds: content <= 4 bytes quick / 5 thorough; media type and remote reference go through the same string rule and are not generated separately.",
      "DESIGN.md §5 C11")
claim("C13",
      "Every document of bounded length over {Marker, Reference, scalars, list, map, end} with symbolic identifiers is run through the real validator and through a reference model (structure automaton + marker table + pending forward references); z3 shows accepted <=> well-formed and marker-consistent. A second entry decides the identifier rule for symbolic identifier bytes and a symbolic MaxIdentifierLength.",
      "Reference model = harness/lib/refmodel.go, from the statement (the 'valid document is accepted' direction is taken from C10's 'accepts exactly'). Outside: reference replacement in built objects (builders), non-ASCII identifiers, maps mixing a reference key with other keys, markers on arrays/edges/nodes/records.",
      "DESIGN.md §5 C13")
claim("C15",
      "Each event kind with a fully symbolic payload is sent through the real rules validator inside a valid document; z3 shows the next receiver gets exactly that event (same method, arguments, order), except the documented rewrites (nil big numbers -> null, NaN -> NaN event of the same kind).",
      "Bounds: one symbolic event per document position (list element), arrays/strings <= 3 bytes, big.Int <= 2 words; *big.Float/*apd.Decimal compared by pointer identity.",
      "DESIGN.md §5 C15")
claim("C14",
      "Each configured limit is an unconstrained 64-bit solver variable; document templates of known usage (depth, object count, array bytes incl. chunk sums, markers, encoded CBE size) run through the real validator / CBE decoder and z3 shows rejected <=> usage > limit for every limit value.",
      "Usage computed by construction of the template. MaxArraySizeBytes=0 (unlimited) excluded; identifier length limit is decided in C13's identifier entry; CTE decoder size check is a one-line wrapper outside the encoded code. Markers are additionally charged against MaxLocalReferenceCount (pinned by the suite): exact verdict asserted when that limit does not bind.",
      "DESIGN.md §5 C14")
claim("C16",
      "Histories of two or three documents on one instance (rules validator after Reset, CBE encoder, CBE decoder): earlier documents are templates cut at every event index or invalid, the last has a symbolic payload and symbolic limits; z3 shows verdict, forwarded events and output bytes equal those of a fresh instance. The real cbe.Marshaler, cte.Marshaler and cbe.Unmarshaler (sessions and type caches included) are reused after valid calls, unsupported types, write failures at any call index, truncated documents and mismatching templates; the last call (symbolic payload) gives the same error, bytes and value as a fresh instance.",
      "Same error = same nil-ness. reflect, sync.Map, WaitGroup are the engine's emulation / sequential model. CTE decoders/unmarshalers (ANTLR) are outside reach.",
      "DESIGN.md §5 C16")
claim("C26",
      "Typed slices of 0..3 elements with every element bit symbolic through the public ce.*SliceAsBytes / ce.BytesTo*Slice helpers (the package's unsafe-based endianness probe is interpreted, not assumed); z3 shows both round trips are the identity, the byte layout is little-endian per element, and the bytes equal what the CBE encoder writes and the decoder returns.",
      "Bounds: length 0..3 elements for the nine fixed-width kinds; float16 and UID helpers are not checked. Little-endian host (amd64) as on the replay machine.",
      "DESIGN.md §5 C26")
claim("C27",
      "The first byte (all 256 values) and the version number (all 2^64 values for CBE, 1..3 symbolic decimal digits for CTE) are solver variables through the real choosers, the universal decoder, the CBE decoder and the CTE version listener; z3 shows both choosers pick CTE for 'c'/'C', CBE for 0x81, error otherwise and agree with each other, the universal decoder equals the CBE decoder on 4-byte symbolic documents, and both formats accept exactly the versions 0 and 1.",
      "CTE lexer/parser not executed: the version listener is driven with a symbolic token text; cte/cbe.NewUnmarshaler replaced by zero-value constructors (reflection-built sessions). 'Every encoder writes version 0' is a constant (version.ConciseEncodingVersion) and is not re-proved.",
      "DESIGN.md §5 C27")
claim("C28",
      "The reader schedule is the solver variable: a harness io.Reader returns a symbolic number of bytes per call (0..min(len(p),remaining), <= 2 empty reads, optional data+EOF on the last call) over CBE document templates with symbolic payload, valid and truncated; z3 shows events and error-ness equal in-memory decoding for every schedule.",
      "Bounds: documents 3..12 bytes, 7 templates, cuts of 1..4 bytes. CTE and universal stream entry points delegate to io.Copy/bufio.Peek and then the ANTLR parser: outside reach.",
      "DESIGN.md §5 C28")
claim("C29",
      "The fault point is the solver variable: index k (0..31) of the failing Write call (transient: that call only, or persistent) during cbe/cte Marshaler.Marshal and of the failing Read call (non-EOF error, optionally with partial data) during cbe.Decoder.Decode and cte.Decoder.Decode, over document templates with symbolic payload; z3 shows the entry returns a non-nil error whenever the fault was hit (and nil otherwise) and no panic escapes.",
      "The marshaler's reflection walk (iterator.Session.Init, RootObjectIterator.Iterate) is replaced by a template event source and cte.ParseDocument by an accepting stub; Marshal wrappers, encoders, writers, readers and the CTE copy loop are the real code. Unmarshaler wrappers (builder sessions) not covered.",
      "DESIGN.md §5 C29")
claim("C18",
      "Pointer-held big numbers with symbolic words/sign (big.Int 1..3 words; apd.Decimal with symbolic coefficient, sign, exponent) are passed through the rules validator and the real CBE encoder; z3 shows sign and every word are unchanged afterwards. The real cbe.Marshaler walks a struct reaching a pointer-held big.Int, a big.Int by value, a map of *big.Int, a *apd.Decimal, slices, strings, a map and a pointed-to struct (one number and one plain payload symbolic per run); z3 shows everything reachable equals a snapshot taken before; the cte.Marshaler likewise on the number-free part.",
      "*big.Float and the decimal text of symbolic big numbers (CTE) are outside reach. reflect, sync.Map, WaitGroup are the engine's emulation / sequential model.",
      "DESIGN.md §5 C18")
claim("C19",
      "The builder's numeric conversion kernels (setIntFrom*/setUintFrom*/setFloatFrom*/setBigIntFromUint/setPBigIntFromUint, conversions.UintToBigInt, BuilderEventReceiver.OnNegativeInt) run on fully symbolic 64-bit integers, float bit patterns and 2-word big.Ints against every integer/float destination width; z3 shows that whenever no error is raised the stored value equals the source's mathematical value (bit-level oracle).",
      "Destinations are written through an emulated reflect.Value (SetInt/SetUint/SetFloat truncate/round like package reflect; validated by native replay). big.Float, DFloat and apd.Decimal sources go through decimal text and are outside reach.",
      "DESIGN.md §5 C19")
claim("C07",
      "Documents of 0..4 fully symbolic bytes (5 thorough) and structured documents reaching each of the 27 length-carrying CBE headers with symbolic length fields run through cbe.Decoder.DecodeDocument/Decode and the universal decoder, rules on and off; the real cbe.Unmarshaler with 8 typed templates (structs with unknown keys, pointer/slice/map fields, *[]string, edge/node holders, interface{}) on marshaled documents cut at every position and with one byte replaced by a symbolic byte; the builders' error wind-up (OnError) with containers open. Every path must return: an escaping panic, an oversized allocation request (> 64 MiB) or an exhausted step budget is reported as a violation with a model.",
      "Outside: the CTE parser proper, goroutine blocking. 'Never blocks' = per-path step budget (5M interpreted instructions; 2M inside Unmarshal). Byte replacement in the quick tier is limited to the first 10 positions.",
      "DESIGN.md §5 C07")
claim("C08",
      "Ghost allocation counter over make/append in the real CBE decoder. (a) For every length-carrying header with symbolic length fields and a symbolic MaxArraySizeBytes in [1,4096], z3 shows no single request and no path total exceeds 64*len(document) + 2*MaxArraySizeBytes + 1 MiB, rules on and off. (b) Inductive step for long payloads: from a reader whose buffer has any size of the doubling sequence (127..65024), readIntoBuffer(count) with count symbolic up to 2^36 against a stream that really delivers 0..3*len(buffer) bytes reserves at most 4x the bytes received and leaves a buffer of at most twice the data received.",
      "Bound constants chosen generously (DESIGN.md §5 C08). Decoding time and the CTE decoder are outside reach. Memory = bytes requested through make/append (engine ghost state; natively runtime.MemStats.TotalAlloc).",
      "DESIGN.md §5 C08")
claim("C09",
      "Encoder-produced CBE documents (11 templates, symbolic payload, two with >= 64 elements so that a chunk header is a 2-byte ULEB128) and raw accepted documents of 3..4 fully symbolic bytes (5 thorough) are cut at every position (long templates: first and last 8 positions); z3 shows the decoder+validator reject every proper prefix. The real cbe.Marshaler/Unmarshaler on 5 values (untyped lists, nested lists, map of lists, a typed struct with slice and pointer fields, typed []string) with symbolic payloads, cut at every position: Unmarshal returns an error and the partial value it returns is a prefix of the full one (present elements/entries are the original ones, nothing else appears).",
      "Outside: CTE. Raw documents containing the padding code are excluded (a cut before trailing padding leaves a complete document). 'Prefix' is defined in harness/C09/partial.go.",
      "DESIGN.md §5 C09")
claim("C04",
      "(a) Typed round trip through the real iterator Session, rules validator and builder Session (and, for the cases with few integers, the real CBE encoder and decoder in between): 24 Go types (struct of all integer widths, bool, string; floats; []byte, [2]byte, slices/arrays of uint16/int32/uint64/float32, []string, []int, []uint, []bool, maps, pointers nil/non-nil, *[]string, nested and embedded structs, interface{} fields, []struct, structs with types.Media values, adjacent byte slices, top-level int64/string) with symbolic contents; z3 shows marshal and unmarshal succeed and every field/element/entry of the result equals the original. (b) Chunked-array reassembly in the real BuilderEventReceiver/Context with symbolic content and every chunking. (c) Integer arrival: every int64/uint64 value as the events a decoder produces into a destination of its own type is accepted and stored exactly.",
      "reflect, sync.Map and WaitGroup are the engine's emulation / sequential model (DESIGN.md §2); equality is checked field by field by the harness. Big numbers, times, URLs, custom types are not in this check; recursion support is C20. Open findings: []int/[]uint and []bool cannot be unmarshaled (KF-C04-int-uint-slices, KF-C04-bool-slices).",
      "DESIGN.md §5 C04")
claim("C05",
      "Leaf iterators (bool slices, eight numeric slice kinds, Edge, Node) and the struct / record iterators built by the real extractFields/newStructIterator/newRecordIterators (6 struct shapes, embedded structs nested 1..5 deep) run on an emulated reflect.Value with symbolic contents; the emitted events go through the real rules validator and a recorder; z3 shows acceptance and that typed arrays carry exactly the elements and every field appears once, in order, under its name, with its own contents.",
      "reflect is the engine's emulation (append capacities follow the Go runtime's growslice so that aliasing after append is reproduced; validated by self-test T00); GetIteratorForType is supplied by the harness in these entries (C21 runs the real Session). Map/list/pointer iterators and recursion support are not covered.",
      "DESIGN.md §5 C05")
claim("C23",
      "The encoder half of C23: the real cte.EncoderEventReceiver (context, decorators, array engine, writer) encodes a typed / bit / string-like / media / custom-binary array delivered whole and delivered in 2 chunks with every chunk boundary and every data-event split point (mid-element, mid-character), and one chunk of 3 multi-byte elements delivered as 3 data events at every pair of split points, with symbolic content; z3 shows both texts are byte-identical.",
      "fmt.Sprintf on symbolic integers is an engine model proved equal to strconv by the self-test (T00). Float arrays (float text) and decode-then-re-encode idempotence (ANTLR) are outside reach. Quick bounds are small (2..3 elements / 2 bytes) because every digit count, bit and character class forks.",
      "DESIGN.md §5 C23")
claim("C25",
      "For every format setting (7) and every integer array kind, the real CTE encoder writes an array whose element values are solver variables (symbolic fmt model), the element texts are cut out and parsed back by the real parseIntElement/parseUintElement (strconv interpreted from source) with the base the header selects; z3 (cvc5 as fallback) shows the parsed bytes equal the original element bytes for all element values.",
      "Quick: all values of 8/16-bit kinds for all 7 settings, 32-bit kinds for binary/octal/hex settings, 64-bit kinds at the range edges (top byte symbolic, low bytes all-zero/all-one); thorough adds 64-bit kinds with every bit symbolic and 32-bit decimal. The header->base association (grammar) is assumed; float kinds are outside reach. Setting value 1 (FlagZeroFilled alone) and unnamed values 2,3 are not exercised.",
      "DESIGN.md §5 C25")
claim("C24",
      "Listener callbacks of the CTE decoder (ExitValueInt, parseIntElement/parseUintElement, ExitCodepointContents, ExitEscapeChar) are driven with a symbolic token text constrained to the lexer rule's shape (sign, base prefix in either case, 1..3 symbolic digits, digit separators; decimal literals of 22 digits with leading zeros for the big-integer fallback); a digit-accumulating reference gives the spelled value; z3 shows the emitted event / element bytes carry exactly that value, elements are rejected exactly when they do not fit, and escapes decode to the spelled character.",
      "The ANTLR lexer/parser is not executed (token shapes taken from CTELexer.g4). Float literals, verbatim sequences, line continuations and prefixed (non-decimal) integers beyond 64 bits are outside reach.",
      "DESIGN.md §5 C24")
claim("C02",
      "One kernel of C02: the time-zone latitude/longitude hundredths, as two lemmas that compose. Writer lemma: the real cte.Writer.WriteTime runs on a symbolic hundredths value (engine model of fmt's %.2f: digits of round-half-even(|x|*100) on the exact binary value) and z3 shows the text equals sign, degrees, '.', two digits for every value in range. Reader lemma: the real cte.parseTimezone runs on that text and z3 shows the Timezone built carries the original hundredths.",
      "In the reader lemma the regexp is replaced by a splitter at '/' and strconv.ParseFloat by its contract on plain decimal texts (the nearest double, computed as integer/10^k); native replay uses the real regexp/ParseFloat and the real writer. A pass says nothing about the rest of C02: string escaping, comments, numeric text, all other time forms and every whole-document CTE round trip go through the ANTLR lexer/parser, which the engine cannot execute.",
      "DESIGN.md §5 C02")
