# Claims table (exec'd by gen_manifest.py).
claim("C01",
      "Bounded symbolic round trip rules->cbe.Encoder->bytes->cbe.Decoder->rules with every payload bit of the templated events symbolic; z3 shows the decoded stream equals the sent one for all values inside the bounds.",
      "Templates and bounds listed in evidence (coverage.bounds); outside: several symbolic values per slot, deeper nesting, long arrays. Trusted: go/ssa lowering, gosym semantics (self-test), z3.",
      "DESIGN.md §5 C01")
claim("C22",
      "Symbolic execution of the real cbe.Encoder on a fully symbolic 64-bit integer / float bit pattern against a spec-derived size oracle: unsat for all 2^64 values per entry.",
      "Oracle = CBE size table written from the specification (DESIGN.md A.1). Trusted: go/ssa lowering, gosym semantics (self-test), z3.",
      "DESIGN.md §5 C22")
for pid in ["C02","C04","C05","C07","C08","C09","C10","C11","C12","C13","C14","C15","C16","C18","C19","C23","C24","C25","C26","C27","C28","C29"]:
    na(pid, "check not built yet in this round (planned, see DESIGN.md §5)")
na("C03", "Both directions pass through the CTE decoder = ANTLR ATN interpreter over symbolic characters (about 40 kLoC generated tables + runtime); token shapes are grammar data, not Go code the engine can execute.")
na("C06", "Untyped unmarshal is builder.* over reflect.New/MakeSlice/MapOf/SetMapIndex/Append and a reference filler: a reflection-defined heap outside the engine's value model.")
na("C17", "Goroutine interleavings over sync.Map, WaitGroup and atomics: the engine has no concurrency semantics.")
na("C20", "Pointer-graph discovery uses reflect.Value.Pointer, go-duplicates (unsafe) and deferred setter closures over reflected fields; graph isomorphism over a symbolic heap is outside the value model.")
na("C21", "Field extraction/order/omission is reflect.StructField/tags over arbitrary struct types (reflect.StructOf in the quantifier) plus regexp; no leaf kernel carries the property.")
