#!/usr/bin/env python3
"""archive_seed.py <dirname> <srcdir> <property> <caught_by> <detected yes|no|after-strengthening> [note]"""
import json, os, shutil, subprocess, sys
name, src, prop, caught, detected = sys.argv[1:6]
note = sys.argv[6] if len(sys.argv) > 6 else ""
dst = f"/verif/seeded/{name}"
os.makedirs(dst, exist_ok=True)
shutil.copy(f"{src}/SEED_PATCH.diff", f"{dst}/patch.diff")
demo = None
for root, _, files in os.walk(src):
    if ".git" in root: continue
    for f in files:
        if f.startswith("zz_") and f.endswith("_test.go"):
            demo = os.path.join(root, f)
rel = os.path.relpath(demo, src)
shutil.copy(demo, f"{dst}/demo_test.go.txt")
meta = json.load(open(f"{src}/SEED_META.json"))
out = {
    "property": prop,
    "summary": meta.get("summary"),
    "needs_to_manifest": meta.get("needs"),
    "files_changed": meta.get("files_changed"),
    "demonstration": {"file": "demo_test.go.txt", "place_at": rel, "test": meta.get("demo_test")},
    "confirmed_by_me": "tools/confirm_seed.sh in a fresh scratch worktree of /repo HEAD: patch applies, go build ./... ok, go test ./... passes with the change (0 failures), the demonstration fails with the change and passes with it reverted",
    "check_run": f"tools/seedtest.sh {prop} seeded/{name}/patch.diff (git -C /repo apply; vcheck {prop} --tier quick; git checkout)",
    "detected": detected,
    "caught_by": caught,
    "note": note,
    "origin": "independent sub-agent given only the property text and a scratch worktree",
}
json.dump(out, open(f"{dst}/meta.json", "w"), indent=1)
print("archived", dst)
