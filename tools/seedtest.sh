#!/bin/sh
# usage: seedtest.sh <property-id> <patch.diff> [extra vcheck args]
# applies the patch to /repo, runs the quick check, reverts.
id=$1; patch=$2; shift 2
cd /repo || exit 9
if ! git diff --quiet; then echo "repo dirty"; exit 9; fi
git apply "$patch" || { echo "patch does not apply"; exit 9; }
go build ./... || { echo "does not build"; git checkout -- .; exit 9; }
/verif/bin/vcheck "$id" "$@" > /tmp/seedtest_$id.log 2>&1
rc=$?
git checkout -- .
git clean -fdq -- . 2>/dev/null
grep -E "^VIOLATION|^KNOWN|^OK|^INCONC" /tmp/seedtest_$id.log | head -8
echo "exit=$rc"
