#!/usr/bin/env python3
"""Regenerates /verif/MANIFEST.json from the table below (single source of truth)."""
import json, os, sys

HERE = os.path.dirname(os.path.dirname(os.path.abspath(__file__)))

TECH = "bounded symbolic execution of go/ssa (gosym) + z3 (SMT-LIB2 over pipes), native replay of models"

# id -> (level text, level note)
CLAIMED = {}
NA = {}

def claim(pid, text, note, design):
    CLAIMED[pid] = (text, note, design)

def na(pid, reason):
    NA[pid] = reason

exec(open(os.path.join(HERE, "tools", "claims.py")).read())

for pid in PLANNED:
    if pid not in CLAIMED and pid not in NA:
        NA[pid] = "check not built yet in this round (planned, see DESIGN.md §5)"

checks = []
for pid in sorted(CLAIMED):
    text, note, design = CLAIMED[pid]
    checks.append({
        "property_id": pid,
        "quick_cmd": f"/verif/bin/vcheck {pid} --tier quick",
        "thorough_cmd": f"/verif/bin/vcheck {pid} --tier thorough",
        "evidence_file": f"/verif/evidence/{pid}.json",
        "replay_cmd_template": "/verif/bin/vcheck --replay {path}",
        "engine": "gosym",
        "level_claimed": {"category": "model_checking", "text": text, "design_ref": design},
        "level_note": note,
        "technique": TECH,
    })

m = {
    "version": 1,
    "setup_cmd": "cd /verif/engine && GOFLAGS=-mod=mod GOPROXY=off GOSUMDB=off GOTOOLCHAIN=local go build -o /verif/bin/vcheck ./cmd/vcheck && /verif/bin/vcheck --selftest",
    "hooks": {
        "guard": "verif",
        "enable": "none needed: harnesses are injected with go/packages overlays (and go test -overlay for native replay); the build tag 'verif' is reserved and passed to both",
        "baseline_off_cmd": "cd /repo && go build ./... && go test -vet=off -count=1 -timeout 25m ./...",
        "source_commits": [],
        "add_only": True,
    },
    "engines": [{
        "name": "gosym",
        "path": "/verif/engine",
        "serves_properties": sorted(CLAIMED),
        "kind_free_text": "symbolic interpreter over go/ssa (fork of x/tools v0.29.0 go/ssa/interp): bit-vector scalars, fork-by-re-execution, z3 over pipes, native replay via go test -overlay",
    }],
    "checks": checks,
    "not_applicable": [{"property_id": k, "reason": NA[k]} for k in sorted(NA)],
    "notes": "See DESIGN.md. exit 0 = every obligation unsat within the stated bounds; exit 1 = natively replayed violation; exit 2 = inconclusive (never on the unchanged tree for a registered bound).",
}
json.dump(m, open(os.path.join(HERE, "MANIFEST.json"), "w"), indent=1)
print("claimed:", sorted(CLAIMED), "na:", sorted(NA))
