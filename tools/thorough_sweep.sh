#!/bin/sh
# run inside a snapshot of /verif (vp run --with-repo): builds vcheck there and runs every check's thorough tier
export GOFLAGS=-mod=mod GOPROXY=off GOSUMDB=off GOTOOLCHAIN=local
here=$(pwd)
(cd engine && go build -o $here/bin/vcheck ./cmd/vcheck) || exit 9
export VERIF_DIR=$here
[ -n "$VP_RUN_REPO" ] && export VERIF_REPO=$VP_RUN_REPO
for id in "$@"; do
  start=$(date +%s)
  ./bin/vcheck $id --tier thorough -noreplay > thorough_$id.log 2>&1
  rc=$?
  echo "$id exit=$rc secs=$(( $(date +%s) - start )) $(grep -c '^INCONC' thorough_$id.log) inconclusive $(grep -c '^VIOLATION' thorough_$id.log) violations :: $(tail -1 thorough_$id.log | cut -c1-160)"
done
