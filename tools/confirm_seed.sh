#!/bin/bash
# usage: confirm_seed.sh <name> <srcdir containing SEED_PATCH.diff, SEED_META.json, demo test>
# Confirms in a fresh scratch worktree: builds, suite passes with the change, demo fails with / passes without.
name=$1; src=$2
export GOFLAGS=-mod=mod GOPROXY=off GOSUMDB=off GOTOOLCHAIN=local
wt=/tmp/wtv/$name
rm -rf $wt; git -C /repo worktree prune; git -C /repo worktree add -q --detach $wt HEAD || exit 9
demo=$(cd $src && git status --porcelain | grep "zz_seed_demo_test.go\|zz_.*_test.go" | awk '{print $2}' | head -1)
[ -z "$demo" ] && demo=$(cd $src && find . -name "zz_seed_demo_test.go" | head -1 | sed 's#^\./##')
pkgdir=$(dirname $demo)
cd $wt
git apply $src/SEED_PATCH.diff || { echo "APPLY-FAIL"; exit 1; }
go build ./... || { echo "BUILD-FAIL"; exit 1; }
suite=$(go test -vet=off -count=1 ./... 2>&1 | grep -c "^FAIL\|^--- FAIL")
cp $src/$demo $wt/$demo
with=$(go test -vet=off -count=1 -run 'Seed|ZZSeed' ./$pkgdir/ 2>&1 | grep -c "^--- FAIL\|^FAIL")
git apply -R $src/SEED_PATCH.diff
without=$(go test -vet=off -count=1 -run 'Seed|ZZSeed' ./$pkgdir/ 2>&1 | grep -c "^--- FAIL\|^FAIL")
echo "$name: suite_failures_with_change=$suite demo_fails_with_change=$([ $with -gt 0 ] && echo yes || echo NO) demo_passes_without=$([ $without -eq 0 ] && echo yes || echo NO) demo=$demo"
cd /; git -C /repo worktree remove --force $wt
