// Package verifrt is the harness runtime. Natively (this file) the nondet
// functions read a replay vector produced by the symbolic engine; under the
// engine every function here is intercepted and never executed.
package verifrt

import (
	"encoding/json"
	"fmt"
	"os"
	"runtime"
)

type vector struct {
	Entry  string            `json:"entry"`
	Values map[string]uint64 `json:"values"`
}

var (
	vec    vector
	loaded bool
	names  = map[string]int{}
	// Failed is set when an assertion fails during a native replay.
	Failed   []string
	Reached  = map[string]int{}
	Notes    []string
	exitOnFail = true
)

func load() {
	if loaded {
		return
	}
	loaded = true
	vec.Values = map[string]uint64{}
	if p := os.Getenv("VERIF_REPLAY"); p != "" {
		b, err := os.ReadFile(p)
		if err != nil {
			fmt.Println("VERIF-REPLAY-ERROR", err)
			os.Exit(96)
		}
		if err := json.Unmarshal(b, &vec); err != nil {
			fmt.Println("VERIF-REPLAY-ERROR", err)
			os.Exit(96)
		}
	}
}

// SetVector installs a replay vector programmatically (used by the self-test driver).
func SetVector(values map[string]uint64) {
	loaded = true
	vec.Values = values
	names = map[string]int{}
	Failed = nil
	Reached = map[string]int{}
	Notes = nil
	exitOnFail = false
}

func get(name string) uint64 {
	load()
	n := names[name]
	names[name] = n + 1
	if n > 0 {
		name = fmt.Sprintf("%s#%d", name, n)
	}
	return vec.Values[name]
}

func Bool(name string) bool  { return get(name) != 0 }
func U8(name string) uint8   { return uint8(get(name)) }
func U16(name string) uint16 { return uint16(get(name)) }
func U32(name string) uint32 { return uint32(get(name)) }
func U64(name string) uint64 { return get(name) }
func I8(name string) int8    { return int8(get(name)) }
func I16(name string) int16  { return int16(get(name)) }
func I32(name string) int32  { return int32(get(name)) }
func I64(name string) int64  { return int64(get(name)) }
func Int(name string) int    { return int(get(name)) }

// Bytes returns n arbitrary bytes named name[0..n-1].
func Bytes(name string, n int) []byte {
	b := make([]byte, n)
	for i := range b {
		b[i] = uint8(get(fmt.Sprintf("%s[%d]", name, i)))
	}
	return b
}

// Choice returns an arbitrary value in [0,n); the engine forks n ways.
func Choice(name string, n int) int {
	v := int(get(name))
	if v < 0 || v >= n {
		fmt.Printf("VERIF-REPLAY-ERROR choice %s=%d out of range %d\n", name, v, n)
		os.Exit(96)
	}
	return v
}

// Assume restricts the inputs considered.
func Assume(c bool) {
	if !c {
		fmt.Println("VERIF-ASSUME-FALSE")
		if exitOnFail {
			os.Exit(98)
		}
		panic(assumeFalse{})
	}
}

type assumeFalse struct{}

// IsAssumeFalse reports whether a recovered panic value is a failed assumption.
func IsAssumeFalse(p interface{}) bool { _, ok := p.(assumeFalse); return ok }

// Assert states the property.
func Assert(c bool, msg string) {
	if !c {
		Failed = append(Failed, msg)
		fmt.Println("VERIF-ASSERT-FAILED:", msg)
		if exitOnFail {
			os.Exit(97)
		}
	}
}

// Reach marks a region that must be reachable (vacuity guard).
func Reach(label string) { Reached[label]++ }

// Known tags the inputs satisfying cond as belonging to known finding id.
func Known(id string, cond bool) {
	if cond {
		fmt.Println("VERIF-KNOWN-REGION:", id)
	}
}

// Note records a sample line for the evidence file (concrete paths only).
func Note(s string) { Notes = append(Notes, s) }

// AllocBudget sets the per-path allocation budget in bytes (engine only).
func AllocBudget(n uint64) {}

// Allocated returns the bytes requested through make/append/new so far on
// this path (engine: ghost counter; native: heap TotalAlloc).
func Allocated() uint64 {
	var m runtime.MemStats
	runtime.ReadMemStats(&m)
	return m.TotalAlloc
}

// Symbolic reports whether the harness runs under the symbolic engine.
func Symbolic() bool { return false }

// And / Or / Implies / Not combine conditions without branching (the engine
// builds one term instead of forking on each operand).
func And(cs ...bool) bool {
	for _, c := range cs {
		if !c {
			return false
		}
	}
	return true
}

func Or(cs ...bool) bool {
	for _, c := range cs {
		if c {
			return true
		}
	}
	return false
}

func Implies(a, b bool) bool { return !a || b }

// BytesEq compares two byte slices without branching per byte.
func BytesEq(a, b []byte) bool {
	if len(a) != len(b) {
		return false
	}
	for i := range a {
		if a[i] != b[i] {
			return false
		}
	}
	return true
}

// Thorough reports whether the thorough tier is running (bigger bounds).
func Thorough() bool { return os.Getenv("VERIF_TIER") == "thorough" }

// IteU64 selects without branching.
func IteU64(c bool, a, b uint64) uint64 {
	if c {
		return a
	}
	return b
}

// HangBudget declares that the code run from here on must return within n
// interpreted instructions (0 = off); exceeding it is reported as a violation
// ("does not return"). Natively the replay runner's wall-clock watchdog plays
// this role.
func HangBudget(n int) {}
