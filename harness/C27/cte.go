//verif:package github.com/kstenerud/go-concise-encoding/cte
//verif:stub (*github.com/antlr/antlr4/runtime/Go/antlr/v4.BaseParserRuleContext).GetText => github.com/kstenerud/go-concise-encoding/cte.verifGetText
//verif:assume the CTE lexer/parser (ANTLR) is not executed: the version listener callback is driven directly with a symbolic token text (header letter + digits)
package cte

import (
	"github.com/antlr/antlr4/runtime/Go/antlr/v4"
	"github.com/kstenerud/go-concise-encoding/configuration"
	"github.com/kstenerud/go-concise-encoding/cte/parser"
	"github.com/kstenerud/go-concise-encoding/internal/verifh"
	"github.com/kstenerud/go-concise-encoding/internal/verifrt"
	"github.com/kstenerud/go-concise-encoding/rules"
)

var verifText string

func verifGetText(_ *antlr.BaseParserRuleContext) string { return verifText }

// CTE accepts version 0 and 1 only (same as CBE).
func Verif_C27_CTEVersion() {
	n := verifrt.Choice("digits", 3) + 1
	digits := verifrt.Bytes("d", n)
	val := uint64(0)
	for _, c := range digits {
		verifrt.Assume(c >= '0' && c <= '9')
		val = val*10 + uint64(c-'0')
	}
	verifrt.Assume(n == 1 || digits[0] != '0') // no leading zeros (they would select another base in ParseUint)
	letter := []byte{'c', 'C'}[verifrt.Choice("letter", 2)]
	verifText = string(append([]byte{letter}, digits...))
	cfg := configuration.New()
	r := rules.NewRules(&verifh.Rec{}, cfg)
	l := &cteListener{eventReceiver: r}
	r.OnBeginDocument()
	rej := verifh.Try(func() { l.ExitVersion(parser.NewEmptyVersionContext()) })
	verifrt.Reach("done")
	verifrt.Known("KF-C27-cte-version-1", val == 1)
	verifrt.Assert(rej == (val > 1), "CTE accepts exactly the versions 0 and 1")
}
