//verif:package github.com/kstenerud/go-concise-encoding/ce
//verif:stub github.com/kstenerud/go-concise-encoding/cte.NewUnmarshaler => github.com/kstenerud/go-concise-encoding/ce.verifStubCTEUnmarshaler
//verif:stub github.com/kstenerud/go-concise-encoding/cbe.NewUnmarshaler => github.com/kstenerud/go-concise-encoding/ce.verifStubCBEUnmarshaler
//verif:config cap=300
//verif:bounds first byte: all 256 values (symbolic); version: all 2^64 values (CBE) / decimal text of 1..3 symbolic digits (CTE)
//verif:assume cte.NewUnmarshaler / cbe.NewUnmarshaler are replaced by constructors of zero values of the same types (their sessions are reflection-built); only the choice is under test
package ce

import (
	"github.com/kstenerud/go-concise-encoding/cbe"
	"github.com/kstenerud/go-concise-encoding/configuration"
	"github.com/kstenerud/go-concise-encoding/cte"
	"github.com/kstenerud/go-concise-encoding/internal/verifh"
	"github.com/kstenerud/go-concise-encoding/internal/verifrt"
	"github.com/kstenerud/go-concise-encoding/rules"
)

func verifStubCTEUnmarshaler(config *configuration.Configuration) *cte.Unmarshaler {
	return &cte.Unmarshaler{}
}

func verifStubCBEUnmarshaler(config *configuration.Configuration) *cbe.Unmarshaler {
	return &cbe.Unmarshaler{}
}

const (
	fmtNone = iota
	fmtCTE
	fmtCBE
)

// Both choosers: CTE for 'c' and 'C', CBE for the signature byte, error otherwise.
func Verif_C27_Choosers() {
	b := verifrt.U8("first")
	cfg := configuration.New()
	want := fmtNone
	if b == 'c' || b == 'C' {
		want = fmtCTE
	} else if b == 0x81 {
		want = fmtCBE
	}
	dec, derr := chooseDecoder(b, cfg)
	gotD := fmtNone
	if derr == nil {
		switch dec.(type) {
		case *cte.Decoder:
			gotD = fmtCTE
		case *cbe.Decoder:
			gotD = fmtCBE
		}
	}
	um, uerr := chooseUnmarshaler(b, cfg)
	gotU := fmtNone
	if uerr == nil {
		switch um.(type) {
		case *cte.Unmarshaler:
			gotU = fmtCTE
		case *cbe.Unmarshaler:
			gotU = fmtCBE
		}
	}
	verifrt.Reach("done")
	verifrt.Assert(gotD == want, "universal decoder picks the format from the first byte ('c'/'C' = CTE, 0x81 = CBE)")
	verifrt.Known("KF-C27-unmarshal-upper-c", b == 'C')
	verifrt.Assert(gotU == want, "universal unmarshaler picks the format from the first byte ('c'/'C' = CTE, 0x81 = CBE)")
	verifrt.Assert(gotU == gotD, "universal decoder and unmarshaler agree")
}

// The universal decoder treats a CBE document exactly as the CBE decoder does.
func Verif_C27_UniversalEqualsCBE() {
	first := verifrt.U8("first")
	verifrt.Assume(first != 'c' && first != 'C') // CTE goes through the ANTLR parser (outside reach)
	rest := verifrt.Bytes("rest", 3)
	doc := append([]byte{first}, rest...)
	cfg := configuration.New()
	recU, recS := &verifh.Rec{}, &verifh.Rec{}
	u := &UniversalDecoder{config: cfg}
	errU := u.DecodeDocument(doc, rules.NewRules(recU, cfg))
	if first != 0x81 {
		verifrt.Reach("unknown-format")
		verifrt.Assert(errU != nil, "unknown first byte is an error")
		return
	}
	errS := cbe.NewDecoder(cfg).DecodeDocument(doc, rules.NewRules(recS, cfg))
	verifrt.Reach("cbe")
	verifrt.Assert((errU == nil) == (errS == nil), "universal decode of a CBE document reports what the CBE decoder reports")
	verifrt.Assert(len(recU.Evs) == len(recS.Evs), "universal decode of a CBE document emits what the CBE decoder emits")
}

// CBE accepts version 0 and 1 only.
func Verif_C27_CBEVersion() {
	v := verifrt.U64("version")
	cfg := configuration.New()
	sink := &verifh.Sink{}
	enc := cbe.NewEncoder(cfg)
	enc.PrepareToEncode(sink)
	enc.OnBeginDocument()
	enc.OnVersion(v)
	enc.OnNull()
	enc.OnEndDocument()
	err := cbe.NewDecoder(cfg).DecodeDocument(sink.Buf, rules.NewRules(&verifh.Rec{}, cfg))
	verifrt.Reach("done")
	verifrt.Assert((err == nil) == (v <= 1), "CBE accepts exactly the versions 0 and 1")
}
