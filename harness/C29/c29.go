//verif:package github.com/kstenerud/go-concise-encoding/internal/verifh/c29
//verif:config cap=300
//verif:bounds the fault point is a solver variable: index k of the Write/Read call that fails (0..31) and whether a write fault is transient (that call only) or persistent, over 6 document templates with symbolic payload; failing reads may first deliver a symbolic number of bytes; the read error is a non-EOF error
//verif:assume writers obey the io.Writer contract (a short write comes with an error)
package c29

import (
	"errors"
	"io"

	"github.com/kstenerud/go-concise-encoding/cbe"
	"github.com/kstenerud/go-concise-encoding/configuration"
	"github.com/kstenerud/go-concise-encoding/cte"
	"github.com/kstenerud/go-concise-encoding/internal/verifh"
	"github.com/kstenerud/go-concise-encoding/internal/verifrt"
	"github.com/kstenerud/go-concise-encoding/iterator"
	"github.com/kstenerud/go-concise-encoding/rules"
)

var errBoom = errors.New("boom")

// faultWriter fails the k-th Write; a persistent fault also fails every later
// one, a transient fault only that one.
type faultWriter struct {
	k         uint8
	calls     uint8
	transient bool
	buf       []byte
}

func (w *faultWriter) Write(p []byte) (int, error) {
	c := w.calls
	w.calls++
	if c == w.k || (c > w.k && !w.transient) {
		return 0, errBoom
	}
	w.buf = append(w.buf, p...)
	return len(p), nil
}

func pickTemplate() {
	iterator.VerifTemplate = verifrt.Choice("tmpl", iterator.VerifNumTemplates)
	iterator.VerifPayload = verifrt.U64("v")
}

func Verif_C29_CBEMarshalWriteFault() {
	pickTemplate()
	k := verifrt.U8("failAt")
	verifrt.Assume(k < 32)
	w := &faultWriter{k: k, transient: verifrt.Bool("transient")}
	err := cbe.NewMarshaler(configuration.New()).Marshal(struct{}{}, w)
	failed := w.calls > w.k
	if failed {
		verifrt.Reach("write-failed")
		verifrt.Assert(err != nil, "a failed write makes CBE Marshal return an error")
	} else {
		verifrt.Reach("no-fault")
		verifrt.Assert(err == nil, "without a fault CBE Marshal succeeds")
	}
}

func Verif_C29_CTEMarshalWriteFault() {
	pickTemplate()
	k := verifrt.U8("failAt")
	verifrt.Assume(k < 32)
	w := &faultWriter{k: k, transient: verifrt.Bool("transient")}
	err := cte.NewMarshaler(configuration.New()).Marshal(struct{}{}, w)
	failed := w.calls > w.k
	if failed {
		verifrt.Reach("write-failed")
		verifrt.Assert(err != nil, "a failed write makes CTE Marshal return an error")
	} else {
		verifrt.Reach("no-fault")
		verifrt.Assert(err == nil, "without a fault CTE Marshal succeeds")
	}
}

// faultReader delivers data and fails the k-th Read with a non-EOF error,
// possibly together with some data.
type faultReader struct {
	data  []byte
	pos   int
	k     uint8
	calls uint8
	hit   bool
}

func (r *faultReader) Read(p []byte) (int, error) {
	c := r.calls
	r.calls++
	remaining := len(r.data) - r.pos
	max := len(p)
	if remaining < max {
		max = remaining
	}
	if c >= r.k {
		r.hit = true
		n := int(verifrt.U8("partial"))
		verifrt.Assume(n <= max)
		copy(p, r.data[r.pos:r.pos+n])
		r.pos += n
		return n, errBoom
	}
	if remaining == 0 {
		return 0, io.EOF
	}
	n := max // full reads: schedule independence is C28's subject
	copy(p, r.data[r.pos:r.pos+n])
	r.pos += n
	return n, nil
}

func cbeDoc() []byte {
	cfg := configuration.New()
	sink := &verifh.Sink{}
	enc := cbe.NewEncoder(cfg)
	enc.PrepareToEncode(sink)
	iterator.VerifPlay(rules.NewRules(enc, cfg), verifrt.Choice("tmpl", iterator.VerifNumTemplates), verifrt.U64("v"))
	return sink.Buf
}

func Verif_C29_CBEDecodeReadFault() {
	doc := cbeDoc()
	k := verifrt.U8("failAt")
	verifrt.Assume(k < 32)
	cfg := configuration.New()
	rd := &faultReader{data: doc, k: k}
	err := cbe.NewDecoder(cfg).Decode(rd, rules.NewRules(&verifh.Rec{}, cfg))
	if rd.hit {
		verifrt.Reach("read-failed")
		verifrt.Assert(err != nil, "a failed read makes CBE Decode return an error")
	} else {
		verifrt.Reach("no-fault")
		verifrt.Assert(err == nil, "without a fault CBE Decode succeeds")
	}
}

// The CTE decoder reads the whole stream before parsing: a read fault must
// surface from that copy loop (the parser is never reached).
func Verif_C29_CTEDecodeReadFault() {
	doc := []byte("c0\n[1 2 3]")
	k := verifrt.U8("failAt")
	verifrt.Assume(k < 8)
	cfg := configuration.New()
	rd := &faultReader{data: doc, k: k}
	var err error
	panicked := verifh.Try(func() { err = cte.NewDecoder(cfg).Decode(rd, rules.NewRules(&verifh.Rec{}, cfg)) })
	verifrt.Assume(rd.hit)
	verifrt.Reach("read-failed")
	verifrt.Assert(!panicked, "no panic escapes CTE Decode")
	verifrt.Assert(err != nil, "a failed read makes CTE Decode return an error")
}
