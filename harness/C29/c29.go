//verif:package github.com/kstenerud/go-concise-encoding/internal/verifh/c29
//verif:config cap=300 steps=400000000 timeout=120000 maxsec=1800
//verif:bounds the real Marshalers/Unmarshalers (iterator and builder sessions included); the fault point is a solver variable: index k of the Write/Read call that fails (0..31) and whether a write fault is transient (that call only) or persistent, over 6 Go values / document templates with symbolic payload; failing reads may first deliver a symbolic number of bytes; the read error is a non-EOF error
//verif:assume reflect, sync.Map and WaitGroup are the engine's emulation / sequential model; writers obey the io.Writer contract (a short write comes with an error)
package c29

import (
	"errors"
	"io"

	"github.com/kstenerud/go-concise-encoding/cbe"
	"github.com/kstenerud/go-concise-encoding/configuration"
	"github.com/kstenerud/go-concise-encoding/cte"
	"github.com/kstenerud/go-concise-encoding/internal/verifh"
	"github.com/kstenerud/go-concise-encoding/internal/verifrt"
	"github.com/kstenerud/go-concise-encoding/rules"
)

var errBoom = errors.New("boom")

// faultWriter fails the k-th Write; a persistent fault also fails every later
// one, a transient fault only that one.
type faultWriter struct {
	k         uint8
	calls     uint8
	transient bool
	buf       []byte
}

func (w *faultWriter) Write(p []byte) (int, error) {
	c := w.calls
	w.calls++
	if c == w.k || (c > w.k && !w.transient) {
		return 0, errBoom
	}
	w.buf = append(w.buf, p...)
	return len(p), nil
}

const numTemplates = 6

// sample returns a Go value to marshal and the template to unmarshal it into.
func sample(k int, v uint64) (value, template interface{}) {
	switch k {
	case 0:
		return v, uint64(0)
	case 1:
		return []interface{}{v, nil, true}, []interface{}{}
	case 2:
		return map[string]int64{"key": -int64(v >> 1)}, map[string]int64{}
	case 3:
		return []uint16{1, 2, uint16(v), 4}, []uint16{}
	case 4:
		return []interface{}{1.5, "a longer string than fifteen bytes"}, nil
	}
	return struct {
		A uint64
		B *string
	}{A: v}, struct {
		A uint64
		B *string
	}{}
}

func pickSample() (value, template interface{}) {
	return sample(verifrt.Choice("tmpl", numTemplates), verifrt.U64("v"))
}

func Verif_C29_CBEMarshalWriteFault() {
	value, _ := pickSample()
	k := verifrt.U8("failAt")
	verifrt.Assume(k < 32)
	w := &faultWriter{k: k, transient: verifrt.Bool("transient")}
	err := cbe.NewMarshaler(configuration.New()).Marshal(value, w)
	failed := w.calls > w.k
	if failed {
		verifrt.Reach("write-failed")
		verifrt.Assert(err != nil, "a failed write makes CBE Marshal return an error")
	} else {
		verifrt.Reach("no-fault")
		verifrt.Assert(err == nil, "without a fault CBE Marshal succeeds")
	}
}

func Verif_C29_CTEMarshalWriteFault() {
	value, _ := pickSample()
	k := verifrt.U8("failAt")
	verifrt.Assume(k < 32)
	w := &faultWriter{k: k, transient: verifrt.Bool("transient")}
	err := cte.NewMarshaler(configuration.New()).Marshal(value, w)
	failed := w.calls > w.k
	if failed {
		verifrt.Reach("write-failed")
		verifrt.Assert(err != nil, "a failed write makes CTE Marshal return an error")
	} else {
		verifrt.Reach("no-fault")
		verifrt.Assert(err == nil, "without a fault CTE Marshal succeeds")
	}
}

// faultReader delivers data and fails the k-th Read with a non-EOF error,
// possibly together with some data.
type faultReader struct {
	data  []byte
	pos   int
	k     uint8
	calls uint8
	hit   bool
}

func (r *faultReader) Read(p []byte) (int, error) {
	c := r.calls
	r.calls++
	remaining := len(r.data) - r.pos
	max := len(p)
	if remaining < max {
		max = remaining
	}
	if c >= r.k {
		r.hit = true
		n := int(verifrt.U8("partial"))
		verifrt.Assume(n <= max)
		copy(p, r.data[r.pos:r.pos+n])
		r.pos += n
		return n, errBoom
	}
	if remaining == 0 {
		return 0, io.EOF
	}
	n := max // full reads: schedule independence is C28's subject
	copy(p, r.data[r.pos:r.pos+n])
	r.pos += n
	return n, nil
}

// cbeDoc marshals a sample value with the real CBE marshaler.
func cbeDoc() (doc []byte, template interface{}) {
	value, template := pickSample()
	sink := &verifh.Sink{}
	if err := cbe.NewMarshaler(configuration.New()).Marshal(value, sink); err != nil {
		verifrt.Assume(false)
	}
	return sink.Buf, template
}

// The whole unmarshal path (reader, decoder, rules, builder session): a failed
// read makes Unmarshal return an error, never a value with a nil error.
func Verif_C29_CBEUnmarshalReadFault() {
	doc, template := cbeDoc()
	k := verifrt.U8("failAt")
	verifrt.Assume(k < 32)
	rd := &faultReader{data: doc, k: k}
	var err error
	panicked := verifh.Try(func() { _, err = cbe.NewUnmarshaler(configuration.New()).Unmarshal(rd, template) })
	verifrt.Assert(!panicked, "no panic escapes CBE Unmarshal")
	if rd.hit {
		verifrt.Reach("read-failed")
		verifrt.Assert(err != nil, "a failed read makes CBE Unmarshal return an error")
	} else {
		verifrt.Reach("no-fault")
		verifrt.Assert(err == nil, "without a fault CBE Unmarshal succeeds")
	}
}

func Verif_C29_CBEDecodeReadFault() {
	doc, _ := cbeDoc()
	k := verifrt.U8("failAt")
	verifrt.Assume(k < 32)
	cfg := configuration.New()
	rd := &faultReader{data: doc, k: k}
	err := cbe.NewDecoder(cfg).Decode(rd, rules.NewRules(&verifh.Rec{}, cfg))
	if rd.hit {
		verifrt.Reach("read-failed")
		verifrt.Assert(err != nil, "a failed read makes CBE Decode return an error")
	} else {
		verifrt.Reach("no-fault")
		verifrt.Assert(err == nil, "without a fault CBE Decode succeeds")
	}
}

// The CTE decoder reads the whole stream before parsing: a read fault must
// surface from that copy loop (the parser is never reached).
func Verif_C29_CTEDecodeReadFault() {
	doc := []byte("c0\n[1 2 3]")
	k := verifrt.U8("failAt")
	verifrt.Assume(k < 8)
	cfg := configuration.New()
	rd := &faultReader{data: doc, k: k}
	var err error
	panicked := verifh.Try(func() { err = cte.NewDecoder(cfg).Decode(rd, rules.NewRules(&verifh.Rec{}, cfg)) })
	verifrt.Assume(rd.hit)
	verifrt.Reach("read-failed")
	verifrt.Assert(!panicked, "no panic escapes CTE Decode")
	verifrt.Assert(err != nil, "a failed read makes CTE Decode return an error")
}

// The whole CTE unmarshal path (stream copy, ANTLR parser, rules, builders).
func Verif_C29_CTEUnmarshalReadFault() {
	doc := []byte("c0\n{\"k\" = [1 2 3]}")
	k := verifrt.U8("failAt")
	verifrt.Assume(k < 8)
	rd := &faultReader{data: doc, k: k}
	var err error
	panicked := verifh.Try(func() { _, err = cte.NewUnmarshaler(configuration.New()).Unmarshal(rd, nil) })
	verifrt.Assert(!panicked, "no panic escapes CTE Unmarshal")
	if rd.hit {
		verifrt.Reach("read-failed")
		verifrt.Assert(err != nil, "a failed read makes CTE Unmarshal return an error")
	} else {
		verifrt.Reach("no-fault")
		verifrt.Assert(err == nil, "without a fault CTE Unmarshal succeeds")
	}
}
