//verif:package github.com/kstenerud/go-concise-encoding/iterator
//verif:stub (*github.com/kstenerud/go-concise-encoding/iterator.Session).Init => github.com/kstenerud/go-concise-encoding/iterator.VerifSessionInit
//verif:stub (*github.com/kstenerud/go-concise-encoding/iterator.RootObjectIterator).Iterate => github.com/kstenerud/go-concise-encoding/iterator.VerifIterate
//verif:assume the reflection walk of the marshaler (iterator.Session.Init, RootObjectIterator.Iterate) is replaced by a template event source that writes to the receiver the real Session.NewIterator was given; the Marshal wrappers with their recover(), the encoders and the writers are the real code
package iterator

import (
	"github.com/kstenerud/go-concise-encoding/ce/events"
	"github.com/kstenerud/go-concise-encoding/configuration"
)

// Selected by the harness entry before calling Marshal.
var (
	VerifTemplate int
	VerifPayload  uint64
)

const VerifNumTemplates = 6

func VerifSessionInit(s *Session, parent *Session, config *configuration.Configuration) {
	s.config = config
	s.context = Context{GetIteratorForType: s.GetIteratorForType, Configuration: config}
}

// VerifIterate plays the selected template document into the iterator's receiver.
func VerifIterate(it *RootObjectIterator, object interface{}) {
	VerifPlay(it.context.EventReceiver, VerifTemplate, VerifPayload)
}

func VerifPlay(r events.DataEventReceiver, k int, v uint64) {
	r.OnBeginDocument()
	r.OnVersion(0)
	switch k {
	case 0:
		r.OnPositiveInt(v)
	case 1:
		r.OnList()
		r.OnPositiveInt(v)
		r.OnNull()
		r.OnTrue()
		r.OnEndContainer()
	case 2:
		r.OnMap()
		r.OnStringlikeArray(events.ArrayTypeString, "key")
		r.OnNegativeInt(v)
		r.OnEndContainer()
	case 3:
		r.OnArray(events.ArrayTypeUint16, 2, []byte{1, 2, byte(v), 4})
	case 4:
		r.OnList()
		r.OnFloat(1.5)
		r.OnStringlikeArray(events.ArrayTypeString, "a longer string than fifteen bytes")
		r.OnEndContainer()
	case 5:
		r.OnNode()
		r.OnPositiveInt(v)
		r.OnNull()
		r.OnEndContainer()
	}
	r.OnEndDocument()
}
