//verif:package github.com/kstenerud/go-concise-encoding/cte
//verif:stub github.com/kstenerud/go-concise-encoding/cte.ParseDocument => github.com/kstenerud/go-concise-encoding/cte.VerifParseDocument
//verif:assume cte.ParseDocument (ANTLR) is replaced by a stub that accepts: only the stream copy loop in front of it is under test
package cte

import "github.com/kstenerud/go-concise-encoding/ce/events"

var VerifParsed int

func VerifParseDocument(document string, eventReceiver events.DataEventReceiver) error {
	VerifParsed++
	return nil
}
