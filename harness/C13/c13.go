//verif:package github.com/kstenerud/go-concise-encoding/internal/verifh/c13
//verif:bounds documents of <= 5 (quick) / 6 (thorough) events after BeginDocument,Version over {Marker(id), Reference(id), PosInt(sym), Null, Float, List, Map, End} followed by EndDocument; ids one symbolic byte in {a,b}; identifier check: 0..3 symbolic bytes, MaxIdentifierLength symbolic
//verif:assume maps that use a local reference as a key together with another key are excluded (whether the referenced value equals another key is not decided by the statements checked here); edges/nodes/records with markers are not generated; non-ASCII identifier characters are outside the bound
package c13

import (
	"github.com/kstenerud/go-concise-encoding/configuration"
	"github.com/kstenerud/go-concise-encoding/internal/verifh"
	"github.com/kstenerud/go-concise-encoding/internal/verifrt"
	"github.com/kstenerud/go-concise-encoding/rules"
)

const (
	eMarker = iota
	eRef
	ePosInt
	eNull
	eFloat
	eList
	eMap
	eEnd
	numEvents
)

func id2(tag string) byte {
	b := verifrt.U8(tag)
	verifrt.Assume(verifrt.Or(b == 'a', b == 'b'))
	return b
}

// Document-level verdict: the validator accepts the whole document exactly
// when it is well-formed and its markers/references are consistent.
func Verif_C13_Documents() {
	L := 5
	if verifrt.Thorough() {
		L = 6
	}
	n := verifrt.Choice("n", L) + 1
	r := rules.NewRules(&verifh.Rec{}, configuration.New())
	r.OnBeginDocument()
	r.OnVersion(0)
	m := &verifh.Model{}
	implOK, refOK := true, true
	try := func(f func()) {
		// once the validator has rejected the document it is not fed further
		if implOK && verifh.Try(f) {
			implOK = false
		}
	}
	for i := 0; i < n && refOK; i++ {
		ev := verifrt.Choice("ev", numEvents)
		var ok bool
		switch ev {
		case eMarker:
			id := id2("id")
			ok = m.Marker(id)
			try(func() { r.OnMarker([]byte{id}) })
		case eRef:
			id := id2("id")
			ok = m.Reference(id)
			try(func() { r.OnReferenceLocal([]byte{id}) })
		case ePosInt:
			v := uint64(verifrt.U8("int"))
			ok = m.Value(false, true, v)
			try(func() { r.OnPositiveInt(v) })
		case eNull:
			ok = m.Value(true, false, 0)
			try(func() { r.OnNull() })
		case eFloat:
			ok = m.FloatValue()
			try(func() { r.OnFloat(1.5) })
		case eList:
			ok = m.Begin(verifh.FList, 0)
			try(func() { r.OnList() })
		case eMap:
			ok = m.Begin(verifh.FMapKey, 0)
			try(func() { r.OnMap() })
		case eEnd:
			ok = m.End()
			try(func() { r.OnEndContainer() })
		}
		if !ok {
			refOK = false
		}
	}
	try(func() { r.OnEndDocument() })
	if refOK {
		refOK = m.EndDocument() && m.MarkersConsistent()
		verifrt.Known("KF-C13-float-ref-key", verifrt.And(m.EndDocument(), !m.MarkersConsistent(), m.MarkersConsistentIfFloatsKeyable()))
	}
	verifrt.Assume(!m.Excluded)
	if implOK {
		verifrt.Reach("accepted")
	} else {
		verifrt.Reach("rejected")
	}
	verifrt.Assert(implOK == refOK, "document accepted exactly when well-formed with consistent markers and references")
}

// Identifier rule for markers, references, record types: non-empty, within
// MaxIdentifierLength, made of [0-9A-Za-z_.-] (ASCII bound).
func Verif_C13_Identifier() {
	n := verifrt.Choice("len", 4)
	id := verifrt.Bytes("id", n)
	for _, c := range id {
		verifrt.Assume(c < 0x80)
	}
	max := verifrt.U64("max")
	which := verifrt.Choice("event", 3)
	cfg := configuration.New()
	cfg.Rules.MaxIdentifierLength = max
	r := rules.NewRules(&verifh.Rec{}, cfg)
	r.OnBeginDocument()
	r.OnVersion(0)
	if which != 2 {
		r.OnList()
	}
	rej := verifh.Try(func() {
		switch which {
		case 0:
			r.OnMarker(id)
		case 1:
			r.OnReferenceLocal(id)
		case 2:
			r.OnRecordType(id)
		}
	})
	valid := n >= 1 && uint64(n) <= max
	for _, c := range id {
		safe := verifrt.Or(verifrt.And(c >= '0', c <= '9'), verifrt.And(c >= 'A', c <= 'Z'), verifrt.And(c >= 'a', c <= 'z'), c == '_', c == '.', c == '-')
		valid = verifrt.And(valid, safe)
	}
	verifrt.Reach("done")
	verifrt.Assert(rej == !valid, "identifier accepted exactly when non-empty, within the configured length and of valid characters")
}

// Longer marker/reference documents than the free histories reach: a list
// holding up to two forward references (as a plain value and/or as a map key,
// in either order), then the marker on an object of a chosen kind, then up to
// one backward reference. Identifiers are symbolic, so references may or may
// not name the marker.
func Verif_C13_ForwardReferenceKinds() {
	first := verifrt.Choice("first", 3)   // 0 none, 1 value reference, 2 key reference
	second := verifrt.Choice("second", 3) // same, after the first
	object := verifrt.Choice("object", 4) // marked object: int, null, float, list
	back := verifrt.Choice("back", 3)     // backward reference: none, value, key
	r := rules.NewRules(&verifh.Rec{}, configuration.New())
	r.OnBeginDocument()
	r.OnVersion(0)
	m := &verifh.Model{}
	implOK, refOK := true, true
	try := func(ok bool, f func()) {
		if !ok {
			refOK = false
		}
		if implOK && verifh.Try(f) {
			implOK = false
		}
	}
	ref := func(kind int, tag string) {
		switch kind {
		case 1:
			id := id2(tag)
			try(m.Reference(id), func() { r.OnReferenceLocal([]byte{id}) })
		case 2:
			id := id2(tag)
			try(m.Begin(verifh.FMapKey, 0), func() { r.OnMap() })
			try(m.Reference(id), func() { r.OnReferenceLocal([]byte{id}) })
			try(m.Value(true, false, 0), func() { r.OnNull() })
			try(m.End(), func() { r.OnEndContainer() })
		}
	}
	try(m.Begin(verifh.FList, 0), func() { r.OnList() })
	ref(first, "ref1")
	ref(second, "ref2")
	mid := id2("marker")
	try(m.Marker(mid), func() { r.OnMarker([]byte{mid}) })
	switch object {
	case 0:
		v := uint64(verifrt.U8("int"))
		try(m.Value(false, true, v), func() { r.OnPositiveInt(v) })
	case 1:
		try(m.Value(true, false, 0), func() { r.OnNull() })
	case 2:
		try(m.FloatValue(), func() { r.OnFloat(1.5) })
	case 3:
		try(m.Begin(verifh.FList, 0), func() { r.OnList() })
		try(m.End(), func() { r.OnEndContainer() })
	}
	ref(back, "ref3")
	try(m.End(), func() { r.OnEndContainer() })
	if implOK && verifh.Try(func() { r.OnEndDocument() }) {
		implOK = false
	}
	if refOK {
		refOK = m.EndDocument() && m.MarkersConsistent()
		verifrt.Known("KF-C13-float-ref-key", verifrt.And(m.EndDocument(), !m.MarkersConsistent(), m.MarkersConsistentIfFloatsKeyable()))
	}
	verifrt.Assume(!m.Excluded)
	if implOK {
		verifrt.Reach("accepted")
	} else {
		verifrt.Reach("rejected")
	}
	verifrt.Assert(implOK == refOK, "document accepted exactly when well-formed with consistent markers and references")
}
