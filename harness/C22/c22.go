//verif:package github.com/kstenerud/go-concise-encoding/internal/verifh/c22
//verif:bounds integers: all 2^64 values per event form; floats: all 2^64 bit patterns
package c22

import (
	"math"

	"github.com/kstenerud/go-concise-encoding/cbe"
	"github.com/kstenerud/go-concise-encoding/configuration"
	"github.com/kstenerud/go-concise-encoding/internal/verifrt"
)

type recW struct{ buf []byte }

func (w *recW) Write(p []byte) (int, error) {
	w.buf = append(w.buf, p...)
	return len(p), nil
}

func newEnc() (*cbe.Encoder, *recW) {
	w := &recW{}
	e := cbe.NewEncoder(configuration.New())
	e.PrepareToEncode(w)
	return e, w
}

// specIntSize is the CBE size table (DESIGN.md A.1) for an integer of the given
// sign and magnitude.
func specIntSize(neg bool, m uint64) int {
	switch {
	case m <= 100 && !(neg && m == 0):
		return 1
	case m <= 0xff:
		return 2
	case m <= 0xffff:
		return 3
	case m <= 0xffffffff:
		return 5
	case m < 1<<40:
		return 7
	case m < 1<<48:
		return 8
	default:
		return 9
	}
}

func Verif_C22_PosInt() {
	v := verifrt.U64("v")
	e, w := newEnc()
	e.OnPositiveInt(v)
	verifrt.Reach("done")
	verifrt.Assert(len(w.buf) == specIntSize(false, v), "positive int uses the shortest form")
}

func Verif_C22_NegInt() {
	v := verifrt.U64("v")
	e, w := newEnc()
	e.OnNegativeInt(v)
	verifrt.Reach("done")
	verifrt.Assert(len(w.buf) == specIntSize(true, v), "negative int uses the shortest form")
}

func Verif_C22_Int() {
	v := verifrt.I64("v")
	e, w := newEnc()
	e.OnInt(v)
	verifrt.Reach("done")
	if v >= 0 {
		verifrt.Assert(len(w.buf) == specIntSize(false, uint64(v)), "int (>=0) uses the shortest form")
	} else {
		verifrt.Assert(len(w.buf) == specIntSize(true, uint64(-v)), "int (<0) uses the shortest form")
	}
}

// specFloatSize: bit-pattern oracle (DESIGN.md A.1) for a finite, non-zero
// binary float: 3 bytes if a bfloat16 holds it, 5 if a float32 does, else 9.
// Stated on the 64-bit pattern only; shares no code path with OnFloat.
func specFloatSize(bits uint64) int {
	e := int64((bits >> 52) & 0x7ff)
	m := bits & (1<<52 - 1)
	if e == 0 {
		return 9 // float64 subnormal: far below the float32 range
	}
	E := e - 1023
	if E > 127 || E < -149 {
		return 9
	}
	shift := uint64(0) // extra right shift when the float32 is subnormal
	if E < -126 {
		shift = uint64(-126 - E)
	}
	if m&((uint64(1)<<(29+shift))-1) != 0 {
		return 9
	}
	// float32-exact. bfloat16 needs 16 more zero bits and the leading 1 inside 7 mantissa bits.
	if shift <= 7 && m&((uint64(1)<<(45+shift))-1) == 0 {
		return 3
	}
	return 5
}

func Verif_C22_Float() {
	bits := verifrt.U64("bits")
	e := (bits >> 52) & 0x7ff
	verifrt.Assume(e != 0x7ff)        // finite
	verifrt.Assume(bits<<1 != 0)      // not +-0
	enc, w := newEnc()
	enc.OnFloat(math.Float64frombits(bits))
	verifrt.Reach("done")
	verifrt.Assert(len(w.buf) == specFloatSize(bits), "binary float uses the narrowest exact width")
}
