//verif:package github.com/kstenerud/go-concise-encoding/internal/verifh/c22
//verif:bounds integers: all 2^64 values per event form; floats: all 2^64 bit patterns
package c22

import (
	"math"

	"github.com/kstenerud/go-concise-encoding/cbe"
	"github.com/kstenerud/go-concise-encoding/ce/events"
	"github.com/kstenerud/go-concise-encoding/rules"
	"github.com/kstenerud/go-concise-encoding/configuration"
	"github.com/kstenerud/go-concise-encoding/internal/verifrt"
)

type recW struct{ buf []byte }

func (w *recW) Write(p []byte) (int, error) {
	w.buf = append(w.buf, p...)
	return len(p), nil
}

func newEnc() (*cbe.Encoder, *recW) {
	w := &recW{}
	e := cbe.NewEncoder(configuration.New())
	e.PrepareToEncode(w)
	return e, w
}

// specIntSize is the CBE size table (DESIGN.md A.1) for an integer of the given
// sign and magnitude.
func specIntSize(neg bool, m uint64) int {
	switch {
	case m <= 100 && !(neg && m == 0):
		return 1
	case m <= 0xff:
		return 2
	case m <= 0xffff:
		return 3
	case m <= 0xffffffff:
		return 5
	case m < 1<<40:
		return 7
	case m < 1<<48:
		return 8
	default:
		return 9
	}
}

func Verif_C22_PosInt() {
	v := verifrt.U64("v")
	e, w := newEnc()
	e.OnPositiveInt(v)
	verifrt.Reach("done")
	verifrt.Assert(len(w.buf) == specIntSize(false, v), "positive int uses the shortest form")
}

func Verif_C22_NegInt() {
	v := verifrt.U64("v")
	e, w := newEnc()
	e.OnNegativeInt(v)
	verifrt.Reach("done")
	verifrt.Assert(len(w.buf) == specIntSize(true, v), "negative int uses the shortest form")
}

func Verif_C22_Int() {
	v := verifrt.I64("v")
	e, w := newEnc()
	e.OnInt(v)
	verifrt.Reach("done")
	if v >= 0 {
		verifrt.Assert(len(w.buf) == specIntSize(false, uint64(v)), "int (>=0) uses the shortest form")
	} else {
		verifrt.Assert(len(w.buf) == specIntSize(true, uint64(-v)), "int (<0) uses the shortest form")
	}
}

// specFloatSize: bit-pattern oracle (DESIGN.md A.1) for a finite, non-zero
// binary float: 3 bytes if a bfloat16 holds it, 5 if a float32 does, else 9.
// Stated on the 64-bit pattern only; shares no code path with OnFloat.
func specFloatSize(bits uint64) int {
	e := int64((bits >> 52) & 0x7ff)
	m := bits & (1<<52 - 1)
	if e == 0 {
		return 9 // float64 subnormal: far below the float32 range
	}
	E := e - 1023
	if E > 127 || E < -149 {
		return 9
	}
	shift := uint64(0) // extra right shift when the float32 is subnormal
	if E < -126 {
		shift = uint64(-126 - E)
	}
	if m&((uint64(1)<<(29+shift))-1) != 0 {
		return 9
	}
	// float32-exact. bfloat16 needs 16 more zero bits and the leading 1 inside 7 mantissa bits.
	if shift <= 7 && m&((uint64(1)<<(45+shift))-1) == 0 {
		return 3
	}
	return 5
}

func Verif_C22_Float() {
	bits := verifrt.U64("bits")
	e := (bits >> 52) & 0x7ff
	verifrt.Assume(e != 0x7ff)        // finite
	verifrt.Assume(bits<<1 != 0)      // not +-0
	enc, w := newEnc()
	enc.OnFloat(math.Float64frombits(bits))
	verifrt.Reach("done")
	verifrt.Assert(len(w.buf) == specFloatSize(bits), "binary float uses the narrowest exact width")
}

// ---- strings and typed arrays: short forms whenever the count allows ------

// specArraySize: one final chunk of n <= 15 elements -> 1-byte header for
// strings, 2-byte (7f, type|n) header for typed kinds; otherwise type byte
// [+ plane byte] + ULEB128((n<<1)|more) per chunk.
func ulebLen(v uint64) int {
	n := 1
	for v >= 0x80 {
		v >>= 7
		n++
	}
	return n
}

func Verif_C22_StringLength() {
	n := []int{0, 1, 14, 15, 16, 17, 64}[verifrt.Choice("len", 7)]
	text := make([]byte, n)
	for i := range text {
		text[i] = 'a'
	}
	form := verifrt.Choice("form", 3)
	e, w := newEnc()
	switch form {
	case 0:
		e.OnStringlikeArray(events.ArrayTypeString, string(text))
	case 1:
		e.OnArray(events.ArrayTypeString, uint64(n), text)
	case 2:
		e.OnArrayBegin(events.ArrayTypeString)
		e.OnArrayChunk(uint64(n), false)
		if n > 0 {
			e.OnArrayData(text)
		}
	}
	want := 1 + n
	if n > 15 {
		want = 1 + ulebLen(uint64(n)<<1) + n
	}
	verifrt.Reach("done")
	verifrt.Assert(len(w.buf) == want, "string uses the short header whenever its length allows")
}

func Verif_C22_TypedArrayLength() {
	kinds := []events.ArrayType{events.ArrayTypeUint16, events.ArrayTypeInt32, events.ArrayTypeFloat64, events.ArrayTypeUID, events.ArrayTypeInt8}
	widths := []int{2, 4, 8, 16, 1}
	ki := verifrt.Choice("kind", len(kinds))
	n := []int{0, 1, 15, 16}[verifrt.Choice("elems", 4)]
	data := make([]byte, n*widths[ki])
	form := verifrt.Choice("form", 2)
	e, w := newEnc()
	if form == 0 {
		e.OnArray(kinds[ki], uint64(n), data)
	} else {
		e.OnArrayBegin(kinds[ki])
		e.OnArrayChunk(uint64(n), false)
		if n > 0 {
			e.OnArrayData(data)
		}
	}
	want := 2 + len(data)
	if n > 15 {
		want = 2 + ulebLen(uint64(n)<<1) + len(data)
	}
	verifrt.Reach("done")
	verifrt.Assert(len(w.buf) == want, "typed array uses the short header whenever its element count allows")
}

// ---- idempotence: decode an encoder-produced document and encode it again --

type teeEnc struct{ *cbe.Encoder }

func reencode(doc []byte) ([]byte, error) {
	cfg := configuration.New()
	w := &recW{}
	e := cbe.NewEncoder(cfg)
	e.PrepareToEncode(w)
	err := cbe.NewDecoder(cfg).DecodeDocument(doc, rules.NewRules(e, cfg))
	return w.buf, err
}

func Verif_C22_Idempotent() {
	which := verifrt.Choice("which", 8)
	v := verifrt.U64("v")
	cfg := configuration.New()
	w := &recW{}
	e := cbe.NewEncoder(cfg)
	e.PrepareToEncode(w)
	var r events.DataEventReceiver = rules.NewRules(e, cfg)
	r.OnBeginDocument()
	r.OnVersion(0)
	switch which {
	case 0:
		r.OnPositiveInt(v)
	case 1:
		r.OnNegativeInt(v | 1)
	case 2:
		r.OnFloat(math.Float64frombits(v))
	case 3:
		r.OnList()
		r.OnInt(int64(v))
		r.OnStringlikeArray(events.ArrayTypeString, "abc")
		r.OnEndContainer()
	case 4:
		r.OnArrayBegin(events.ArrayTypeUint16)
		r.OnArrayChunk(1, true)
		r.OnArrayData([]byte{byte(v), byte(v >> 8)})
		r.OnArrayChunk(1, false)
		r.OnArrayData([]byte{3, 4})
	case 5:
		r.OnMap()
		r.OnUID(make([]byte, 16))
		r.OnNan(v&1 == 0)
		r.OnEndContainer()
	case 6:
		r.OnArray(events.ArrayTypeUint8, 16, make([]byte, 16))
	case 7:
		r.OnMedia("a/b", []byte{byte(v), 2})
	}
	r.OnEndDocument()
	first := w.buf
	second, err := reencode(first)
	verifrt.Reach("done")
	verifrt.Assert(err == nil, "encoder output decodes")
	verifrt.Assert(len(first) == len(second), "re-encoding keeps the length")
	verifrt.Assert(verifrt.BytesEq(first, second), "decode then encode reproduces the document byte for byte")
}
