//verif:package github.com/kstenerud/go-concise-encoding/internal/verifh/c24
//verif:config cap=300 steps=400000000 timeout=120000 maxsec=1800
//verif:bounds the real CTE decoder (ANTLR lexer, parser, listener executed by the engine) on documents holding one integer literal / one typed-array element whose digits are symbolic characters: optional '-', base prefix 0b/0o/0x in either case or none, 1 (quick) / 2 (thorough, bases 2, 8, 10) digit characters of the base, optionally a '_' between two digits; array headers @u8 @u8b @u8o @u8x @i8 @i8x with one symbolic element digit; escapes \n \t \" \\ \[hh] with one symbolic hex digit
//verif:assume each symbolic character is enumerated at the lexer's table lookups (one path per value)
package c24

import (
	"github.com/kstenerud/go-concise-encoding/configuration"
	"github.com/kstenerud/go-concise-encoding/cte"
	"github.com/kstenerud/go-concise-encoding/internal/verifh"
	"github.com/kstenerud/go-concise-encoding/internal/verifrt"
	"github.com/kstenerud/go-concise-encoding/rules"
)

// digit returns a symbolic digit character of the base and its value.
func digit(base int) (byte, uint64) {
	c := verifrt.U8("digit")
	switch base {
	case 2:
		verifrt.Assume(c == '0' || c == '1')
		return c, uint64(c - '0')
	case 8:
		verifrt.Assume(c >= '0' && c <= '7')
		return c, uint64(c - '0')
	case 10:
		verifrt.Assume(c >= '0' && c <= '9')
		return c, uint64(c - '0')
	}
	switch verifrt.Choice("hexclass", 3) {
	case 0:
		verifrt.Assume(c >= '0' && c <= '9')
		return c, uint64(c - '0')
	case 1:
		verifrt.Assume(c >= 'a' && c <= 'f')
		return c, uint64(c-'a') + 10
	}
	verifrt.Assume(c >= 'A' && c <= 'F')
	return c, uint64(c-'A') + 10
}

func decode(text []byte) (*verifh.Rec, error) {
	cfg := configuration.New()
	rec := &verifh.Rec{}
	err := cte.NewDecoder(cfg).DecodeDocument(text, rules.NewRules(rec, cfg))
	return rec, err
}

func Verif_C24_LexedIntegerLiteral() {
	bi := verifrt.Choice("base", 4)
	base := []int{10, 2, 8, 16}[bi]
	neg := verifrt.Choice("sign", 2) == 1
	text := []byte("c0\n")
	if neg {
		text = append(text, '-')
	}
	if base != 10 {
		letter := []byte{0, 'b', 'o', 'x'}[bi]
		if verifrt.Choice("prefixCase", 2) == 1 {
			letter -= 32
		}
		text = append(text, '0', letter)
	}
	n := 1
	if verifrt.Thorough() && base != 16 {
		n = verifrt.Choice("digits", 2) + 1 // two hexadecimal digits (22 x 22 spellings per sign and prefix) do not fit the thorough budget
	}
	sep := n == 2 && verifrt.Choice("separator", 2) == 1
	var want uint64
	for i := 0; i < n; i++ {
		c, v := digit(base)
		text = append(text, c)
		want = want*uint64(base) + v
		if sep && i == 0 {
			text = append(text, '_')
		}
	}
	rec, err := decode(text)
	verifrt.Reach("decoded")
	verifrt.Assert(err == nil, "a literal of the grammar's integer shape is accepted by the real lexer, parser and listener")
	if err != nil {
		return
	}
	verifrt.Assert(len(rec.Evs) == 4, "one value event")
	ok, gneg, mag := verifh.IntValue(rec.Evs[2])
	verifrt.Assert(ok, "an integer literal produces an integer event")
	if neg && want == 0 {
		return // -0 is the float negative zero in CTE: not an integer statement
	}
	verifrt.Assert(verifrt.And(mag == want, verifrt.Or(mag == 0, gneg == neg)), "the integer literal decodes to exactly the value it spells")
}

var headers = []struct {
	text   string
	base   int
	signed bool
}{{"@u8[", 10, false}, {"@u8b[", 2, false}, {"@u8o[", 8, false}, {"@u8x[", 16, false}, {"@i8[", 10, true}, {"@i8x[", 16, true}}

// The array header selects the base its elements are read in.
func Verif_C24_LexedArrayElement() {
	h := headers[verifrt.Choice("header", len(headers))]
	neg := h.signed && verifrt.Choice("sign", 2) == 1
	text := []byte("c0\n" + h.text + "1 ")
	if neg {
		text = append(text, '-')
	}
	c, v := digit(h.base)
	text = append(text, c)
	if h.base != 2 {
		text = append(text, '7')
		v = v*uint64(h.base) + 7
	}
	text = append(text, ']')
	rec, err := decode(text)
	verifrt.Reach("decoded")
	fits := v <= 255
	if h.signed {
		fits = (!neg && v <= 127) || (neg && v <= 128)
	}
	verifrt.Assert((err == nil) == fits, "an array element is accepted exactly when it fits the element type, read in the base of the array header")
	if err != nil {
		return
	}
	var got []byte
	for _, e := range rec.Evs {
		if e.K == verifh.KArray || e.K == verifh.KArrayData {
			got = append(got, e.S...)
		}
	}
	want := byte(v)
	if neg {
		want = byte(-int8(v))
	}
	verifrt.Assert(len(got) == 2 && got[0] == 1 && got[1] == want, "the element bytes carry the spelled value")
}

// Escape sequences in strings, one symbolic hex digit in the code point form.
func Verif_C24_LexedEscapes() {
	which := verifrt.Choice("escape", 5)
	var text []byte
	var want []byte
	switch which {
	case 0:
		text, want = []byte("c0\n\"a\\nb\""), []byte("a\nb")
	case 1:
		text, want = []byte("c0\n\"\\t\\\"\""), []byte("\t\"")
	case 2:
		text, want = []byte("c0\n\"\\\\\""), []byte("\\")
	case 3:
		c, v := digit(16)
		text = append([]byte("c0\n\"\\[4"), c, ']', '"')
		want = []byte{byte(0x40 + v)}
	case 4:
		c, v := digit(16)
		text = append([]byte("c0\n\"\\[e"), c, ']', '"') // U+00E0..U+00EF: two UTF-8 bytes
		want = []byte{0xc3, byte(0xa0 + v)}
	}
	rec, err := decode(text)
	verifrt.Reach("decoded")
	verifrt.Assert(err == nil, "a string with escapes is accepted")
	if err != nil {
		return
	}
	var got []byte
	for _, e := range rec.Evs {
		if e.K == verifh.KStringArray || e.K == verifh.KArray || e.K == verifh.KArrayData {
			got = append(got, e.S...)
		}
	}
	verifrt.Assert(len(got) == len(want) && verifrt.BytesEq(got, want), "escapes decode to the characters they spell")
}
