//verif:package github.com/kstenerud/go-concise-encoding/cte
//verif:stub (*github.com/antlr/antlr4/runtime/Go/antlr/v4.BaseParserRuleContext).GetText => github.com/kstenerud/go-concise-encoding/cte.c24GetText
//verif:config cap=300
//verif:bounds integer literals: optional '-', base prefix 0b/0B/0o/0O/0x/0X or none, 1..3 (quick) / 4 (thorough) symbolic digit characters of the base, at most one '_' run between two digits; decimal literals beyond 64 bits: optional '-', 0..2 leading zeros, 22 digits with the first and last two symbolic; typed-array elements: same shapes against bit sizes 8 and 16; \[hex] code point escapes of 1..4 symbolic hex digits; all 11 named escapes in both cases
//verif:assume the lexer/parser (ANTLR) is not executed: listener callbacks are driven with a symbolic token text constrained to the lexer rule's shape (CTELexer.g4); float literals (big.ParseFloat, apd, regexp) and prefixed (non-decimal) integers too long for 64 bits are outside reach
package cte

import (
	"math/big"
	"unicode/utf8"

	"github.com/antlr/antlr4/runtime/Go/antlr/v4"
	"github.com/kstenerud/go-concise-encoding/cte/parser"
	"github.com/kstenerud/go-concise-encoding/internal/verifh"
	"github.com/kstenerud/go-concise-encoding/internal/verifrt"
)

var c24Text string

// c24GetText stands in for the token text only while a listener-driving entry
// has set c24Text; the entries that run the real parser (real.go) get the real
// text.
func c24GetText(ctx *antlr.BaseParserRuleContext) string {
	if c24Text == "" {
		return ctx.GetText()
	}
	return c24Text
}

type c24Lit struct {
	text []byte
	neg  bool
	mag  uint64
	base int
}

// c24Digit returns a symbolic digit character of the base and its value.
func c24Digit(base int) (byte, uint64) {
	c := verifrt.U8("digit")
	switch base {
	case 2:
		verifrt.Assume(c == '0' || c == '1')
		return c, uint64(c - '0')
	case 8:
		verifrt.Assume(c >= '0' && c <= '7')
		return c, uint64(c - '0')
	case 10:
		verifrt.Assume(c >= '0' && c <= '9')
		return c, uint64(c - '0')
	}
	cls := verifrt.Choice("hexclass", 3)
	switch cls {
	case 0:
		verifrt.Assume(c >= '0' && c <= '9')
		return c, uint64(c - '0')
	case 1:
		verifrt.Assume(c >= 'a' && c <= 'f')
		return c, uint64(c-'a') + 10
	}
	verifrt.Assume(c >= 'A' && c <= 'F')
	return c, uint64(c-'A') + 10
}

// c24Literal builds a literal of the lexer's integer shape together with the
// value it spells (digit accumulation; no code shared with strconv).
func c24Literal(allowNeg, withPrefix bool) c24Lit {
	var l c24Lit
	bi := verifrt.Choice("base", 4)
	l.base = []int{10, 2, 8, 16}[bi]
	if allowNeg && verifrt.Choice("sign", 2) == 1 {
		l.neg = true
		l.text = append(l.text, '-')
	}
	if withPrefix && l.base != 10 {
		upper := verifrt.Choice("prefixCase", 2) == 1
		letter := []byte{0, 'b', 'o', 'x'}[bi]
		if upper {
			letter -= 32
		}
		l.text = append(l.text, '0', letter)
	}
	maxDigits := 3
	if verifrt.Thorough() {
		maxDigits = 4
	}
	n := verifrt.Choice("digits", maxDigits) + 1
	sep := verifrt.Choice("separatorAfter", n) // 0 = none, k = one '_' after digit k
	for i := 0; i < n; i++ {
		c, v := c24Digit(l.base)
		l.text = append(l.text, c)
		l.mag = l.mag*uint64(l.base) + v
		if sep == i+1 && i+1 < n {
			l.text = append(l.text, '_')
		}
	}
	return l
}

func Verif_C24_IntegerLiteral() {
	l := c24Literal(true, true)
	c24Text = string(l.text)
	rec := &verifh.Rec{}
	lst := &cteListener{eventReceiver: rec}
	rejected := verifh.Try(func() { lst.ExitValueInt(parser.NewEmptyValueIntContext()) })
	verifrt.Reach("parsed")
	verifrt.Assert(!rejected, "a literal of the lexer's integer shape is accepted")
	verifrt.Assert(len(rec.Evs) == 1, "one event per literal")
	g := rec.Evs[0]
	verifrt.Known("KF-C24-leading-zero-octal", verifrt.And(l.base == 10, len(l.text) > 1, l.text[len(l.text)-len(trimSign(l.text))] == '0'))
	ok, neg, mag := verifh.IntValue(g)
	verifrt.Assert(ok, "an integer literal produces an integer event")
	if l.neg && l.mag == 0 {
		verifrt.Assert(g.K == verifh.KNegInt && g.U == 0, "negative zero literal stays a negative zero")
		return
	}
	verifrt.Assert(verifrt.And(mag == l.mag, verifrt.Or(mag == 0, neg == l.neg)), "integer literal decodes to exactly the value it spells")
}

// Decimal literals too long for 64 bits take the big.Int fallback: optional
// '-', 0..2 leading zeros, then 22 digits of which the first and the last two
// are symbolic. The expected value is accumulated with big.Int arithmetic from
// the digit values (no string parsing shared with the listener).
func Verif_C24_BigDecimalLiteral() {
	var text []byte
	neg := verifrt.Choice("sign", 2) == 1
	if neg {
		text = append(text, '-')
	}
	for z := verifrt.Choice("leadingZeros", 3); z > 0; z-- {
		text = append(text, '0')
	}
	d0, v0 := c24Digit(10)
	verifrt.Assume(v0 != 0)
	d1, v1 := c24Digit(10)
	d2, v2 := c24Digit(10)
	middle := "7766554433221100998"
	text = append(text, d0)
	text = append(text, middle...)
	text = append(text, d1, d2)
	want := new(big.Int).SetUint64(v0)
	ten := big.NewInt(10)
	for _, c := range []byte(middle) {
		want.Mul(want, ten)
		want.Add(want, big.NewInt(int64(c-'0')))
	}
	want.Mul(want, ten)
	want.Add(want, new(big.Int).SetUint64(v1))
	want.Mul(want, ten)
	want.Add(want, new(big.Int).SetUint64(v2))
	c24Text = string(text)
	rec := &verifh.Rec{}
	lst := &cteListener{eventReceiver: rec}
	rejected := verifh.Try(func() { lst.ExitValueInt(parser.NewEmptyValueIntContext()) })
	verifrt.Reach("parsed")
	verifrt.Assert(!rejected, "a long decimal literal is accepted")
	verifrt.Assert(len(rec.Evs) == 1 && rec.Evs[0].K == verifh.KBigInt, "one big integer event")
	g := rec.Evs[0]
	verifrt.Assert(g.B == neg, "sign of the long literal")
	verifrt.Assert(verifrt.BytesEq(g.S, verifh.WordsLE(want)), "long decimal literal decodes to exactly the value it spells")
}

func trimSign(b []byte) []byte {
	if len(b) > 0 && b[0] == '-' {
		return b[1:]
	}
	return b
}

// Typed array elements: accepted exactly when the value fits the element type.
func Verif_C24_ArrayElement() {
	signed := verifrt.Choice("signed", 2) == 1
	bits := []int{8, 16}[verifrt.Choice("bits", 2)]
	l := c24Literal(signed, false)
	var out []byte
	rejected := verifh.Try(func() {
		base := l.base
		if base == 10 {
			base = 0 // decimal arrays are parsed with base 0 by the listener
		}
		if signed {
			out = parseIntElement(string(l.text), base, bits, nil)
		} else {
			out = parseUintElement(string(l.text), base, bits, nil)
		}
	})
	var fits bool
	if signed {
		limit := uint64(1) << uint(bits-1)
		fits = l.mag < limit || (l.neg && l.mag == limit)
	} else {
		fits = l.mag < uint64(1)<<uint(bits)
	}
	verifrt.Reach("parsed")
	verifrt.Known("KF-C24-leading-zero-octal", verifrt.And(l.base == 10, len(trimSign(l.text)) > 1, trimSign(l.text)[0] == '0'))
	verifrt.Assert(rejected == !fits, "array element accepted exactly when it fits the element type")
	if !rejected {
		var v uint64
		for i := len(out) - 1; i >= 0; i-- {
			v = v<<8 | uint64(out[i])
		}
		want := l.mag
		if l.neg {
			want = (-l.mag) & (uint64(1)<<uint(bits) - 1)
		}
		verifrt.Assert(len(out) == bits/8 && v == want, "array element bytes are the little-endian two's complement of the spelled value")
	}
}

// \[hex] code point escapes.
func Verif_C24_CodepointEscape() {
	n := verifrt.Choice("digits", 4) + 1
	var text []byte
	var cp uint64
	for i := 0; i < n; i++ {
		c, v := c24Digit(16)
		text = append(text, c)
		cp = cp<<4 | v
	}
	text = append(text, ']')
	c24Text = string(text)
	lst := &cteListener{}
	rejected := verifh.Try(func() { lst.ExitCodepointContents(parser.NewEmptyCodepointContentsContext()) })
	verifrt.Reach("parsed")
	verifrt.Assert(!rejected, "a hex code point escape is accepted")
	valid := cp < 0xd800 || cp > 0xdfff // surrogates are not characters
	if valid {
		r, size := utf8.DecodeRune(lst.arrayData)
		verifrt.Assert(size == len(lst.arrayData) && uint64(r) == cp, "escape decodes to exactly the code point it spells")
	}
}

func Verif_C24_NamedEscape() {
	names := []byte{'r', 'R', 'n', 'N', 't', 'T', '"', '*', '/', '\\', '-', '_'}
	want := []rune{'\r', '\r', '\n', '\n', '\t', '\t', '"', '*', '/', '\\', 0xad, 0xa0}
	k := verifrt.Choice("escape", len(names))
	c24Text = string([]byte{names[k]})
	lst := &cteListener{}
	lst.ExitEscapeChar(parser.NewEmptyEscapeCharContext())
	r, size := utf8.DecodeRune(lst.arrayData)
	verifrt.Reach("parsed")
	verifrt.Assert(size == len(lst.arrayData) && r == want[k], "named escape decodes to its character")
}
