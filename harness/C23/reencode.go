//verif:package github.com/kstenerud/go-concise-encoding/internal/verifh/c23
//verif:config cap=300 steps=400000000 timeout=120000 maxsec=1800
//verif:bounds decode-then-re-encode: the text the real CTE encoder writes for 9 templates with an 8-bit symbolic payload (quick: 8 boundary values, thorough: 72 values around the boundaries) - integers of both signs, strings with a character that needs escaping, typed arrays, nested containers with comments, markers/references, records, nodes and edges, media/custom/UID, floats and times - is read by the real CTE decoder (ANTLR executed by the engine) and written again by a fresh encoder; the two texts are compared byte for byte
//verif:assume every symbolic character of the text is enumerated at the lexer's table lookups (one path per value)
package c23

import (
	compact_float "github.com/kstenerud/go-compact-float"
	compact_time "github.com/kstenerud/go-compact-time"
	"github.com/kstenerud/go-concise-encoding/ce/events"
	"github.com/kstenerud/go-concise-encoding/configuration"
	"github.com/kstenerud/go-concise-encoding/cte"
	"github.com/kstenerud/go-concise-encoding/internal/verifh"
	"github.com/kstenerud/go-concise-encoding/internal/verifrt"
	"github.com/kstenerud/go-concise-encoding/rules"
)

var reChars = []string{"a", "\"", "\\", "\n", "\t", "é"}

func Verif_C23_ReencodeReproducesText() {
	which := verifrt.Choice("template", 9)
	v := uint64(verifrt.U8("v"))
	if !verifrt.Thorough() {
		verifrt.Assume(v < 2 || v == 9 || v == 10 || v == 99 || v == 100 || v == 127 || v == 128 || v == 255)
	} else {
		verifrt.Assume(v < 24 || (v >= 96 && v < 136) || v >= 248) // thorough: 72 values around every digit-count and sign boundary
	}
	c := ""
	if which == 1 {
		c = reChars[verifrt.Choice("char", len(reChars))]
		verifrt.Assume(v == 0)
	}
	variant := 0
	if which == 8 {
		variant = verifrt.Choice("variant", 3) // nothing symbolic in the float/time template
		verifrt.Assume(v == 0)
	}
	send := func(r events.DataEventReceiver) {
		r.OnBeginDocument()
		r.OnVersion(0)
		switch which {
		case 0:
			r.OnList()
			r.OnPositiveInt(v)
			r.OnNegativeInt(v + 1)
			r.OnEndContainer()
		case 1:
			r.OnMap()
			r.OnStringlikeArray(events.ArrayTypeString, "k"+c)
			r.OnStringlikeArray(events.ArrayTypeResourceID, "r:"+c)
			r.OnEndContainer()
		case 2:
			r.OnList()
			r.OnArray(events.ArrayTypeUint8, 2, []byte{byte(v), 7})
			r.OnArray(events.ArrayTypeInt16, 1, []byte{byte(v), 0x80})
			r.OnArray(events.ArrayTypeBit, 9, []byte{byte(v), 1})
			r.OnEndContainer()
		case 3:
			r.OnComment(false, []byte(" top "))
			r.OnList()
			r.OnMap()
			r.OnPositiveInt(v)
			r.OnList()
			r.OnComment(true, []byte(" in\nside "))
			r.OnEndContainer()
			r.OnEndContainer()
			r.OnNull()
			r.OnTrue()
			r.OnEndContainer()
		case 4:
			r.OnList()
			r.OnMarker([]byte("a1"))
			r.OnMap()
			r.OnPositiveInt(v)
			r.OnFalse()
			r.OnEndContainer()
			r.OnReferenceLocal([]byte("a1"))
			r.OnEndContainer()
		case 5:
			r.OnRecordType([]byte("rt"))
			r.OnStringlikeArray(events.ArrayTypeString, "k1")
			r.OnPositiveInt(2)
			r.OnEndContainer()
			r.OnList()
			r.OnRecord([]byte("rt"))
			r.OnPositiveInt(v)
			r.OnNull()
			r.OnEndContainer()
			r.OnEndContainer()
		case 6:
			r.OnList()
			r.OnNode()
			r.OnPositiveInt(v)
			r.OnStringlikeArray(events.ArrayTypeString, "leaf")
			r.OnEndContainer()
			r.OnEdge()
			r.OnPositiveInt(v)
			r.OnStringlikeArray(events.ArrayTypeResourceID, "http://x.y/z")
			r.OnStringlikeArray(events.ArrayTypeString, "dst")
			r.OnEndContainer()
			r.OnEndContainer()
		case 7:
			r.OnList()
			r.OnMedia("text/x", []byte{1, byte(v), 3})
			r.OnCustomBinary(v, []byte{byte(v), 0xff})
			r.OnCustomText(v, "ct")
			r.OnUID([]byte{0, 1, 2, 3, 4, 5, 6, 7, 8, 9, 10, 11, 12, 13, 14, byte(v)})
			r.OnEndContainer()
		case 8:
			k := variant
			r.OnList()
			r.OnNan(k == 1)
			r.OnFloat([]float64{1.5, -0.015625, 1e300}[k])
			r.OnDecimalFloat(compact_float.DFloatValue(-2, int64(k)*10+1))
			r.OnTime(compact_time.NewDate(2000+k, 2, 28))
			r.OnTime(compact_time.NewTime(23, 59, 7*k, 500000000*(k%2), compact_time.TZAtLatLong(1234-1300*k, -99*k)))
			r.OnTime(compact_time.NewTimestamp(1999, 12, 31, 0, 0, k, 0, compact_time.TZAtUTC()))
			r.OnEndContainer()
		}
		r.OnEndDocument()
	}
	cfg := configuration.New()
	if verifh.Try(func() { send(rules.NewRules(&verifh.Rec{}, cfg)) }) {
		verifrt.Assume(false)
	}
	first := &verifh.Sink{}
	enc1 := cte.NewEncoder(cfg)
	enc1.PrepareToEncode(first)
	send(rules.NewRules(enc1, cfg))
	second := &verifh.Sink{}
	enc2 := cte.NewEncoder(cfg)
	enc2.PrepareToEncode(second)
	err := cte.NewDecoder(cfg).DecodeDocument(first.Buf, rules.NewRules(enc2, cfg))
	verifrt.Reach("re-encoded")
	verifrt.Assert(err == nil, "encoder-produced CTE decodes and encodes again")
	verifrt.Assert(len(first.Buf) == len(second.Buf), "re-encoding gives a text of the same length")
	verifrt.Assert(verifrt.BytesEq(first.Buf, second.Buf), "decoding encoder-produced CTE and encoding it again reproduces the same text")
}
