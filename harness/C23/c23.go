//verif:package github.com/kstenerud/go-concise-encoding/internal/verifh/c23
//verif:config cap=300 maxsec=1800
//verif:bounds quick: typed arrays uint8/uint16 of 2 elements (every bit symbolic), bit arrays <= 9 bits, strings/resource ids/custom text of 2 symbolic bytes (multi-byte UTF-8 lead/continuation bytes included), media and custom binary <= 3 bytes; thorough: also int16/uint32, 3 elements, 11 bits, 3-byte plain strings, map-value position; each re-chunked into 2 chunks at every element boundary and each chunk's bytes split into 2 data events at every byte (mid-element, mid-character); one chunk of 3 uint16 elements as 3 data events at every pair of split points; array as top-level value, list element and map value
//verif:assume fmt.Sprintf on symbolic integers is the engine's model (self-test T00 proves it equal to strconv for all 8/16-bit values); float arrays (strconv float text) and decode-then-re-encode idempotence (ANTLR) are outside reach
package c23

import (
	"github.com/kstenerud/go-concise-encoding/ce/events"
	"github.com/kstenerud/go-concise-encoding/configuration"
	"github.com/kstenerud/go-concise-encoding/cte"
	"github.com/kstenerud/go-concise-encoding/internal/verifh"
	"github.com/kstenerud/go-concise-encoding/internal/verifrt"
	"github.com/kstenerud/go-concise-encoding/rules"
)

func encode(send func(r events.DataEventReceiver)) ([]byte, bool) {
	cfg := configuration.New()
	sink := &verifh.Sink{}
	enc := cte.NewEncoder(cfg)
	enc.PrepareToEncode(sink)
	r := rules.NewRules(enc, cfg)
	rejected := verifh.Try(func() { send(r) })
	return sink.Buf, rejected
}

// positions: quick = top level and list element; thorough adds map value.
func positions() int {
	if verifrt.Thorough() {
		return verifrt.Choice("pos", 3)
	}
	return verifrt.Choice("pos", 2)
}

func wrap(pos int, value func(r events.DataEventReceiver)) func(r events.DataEventReceiver) {
	return func(r events.DataEventReceiver) {
		r.OnBeginDocument()
		r.OnVersion(0)
		switch pos {
		case 0:
			value(r)
		case 1:
			r.OnList()
			r.OnTrue()
			value(r)
			r.OnNull()
			r.OnEndContainer()
		case 2:
			r.OnMap()
			r.OnPositiveInt(1)
			value(r)
			r.OnEndContainer()
		}
		r.OnEndDocument()
	}
}

// chunked sends data as two chunks split at element c, each chunk's bytes in
// two data events split at byte d1 / d2 (0 = unsplit).
func chunked(begin func(r events.DataEventReceiver), esz int, bitsLast int, data []byte, c, d1, d2 int) func(r events.DataEventReceiver) {
	return func(r events.DataEventReceiver) {
		begin(r)
		send := func(b []byte, elems uint64, more bool, d int) {
			r.OnArrayChunk(elems, more)
			if len(b) == 0 {
				return
			}
			if d > 0 && d < len(b) {
				r.OnArrayData(b[:d])
				r.OnArrayData(b[d:])
			} else {
				r.OnArrayData(b)
			}
		}
		n := len(data) / esz
		if bitsLast > 0 { // bit array: element counts in bits; first chunk whole bytes
			total := (len(data)-1)*8 + bitsLast
			send(data[:c], uint64(c*8), true, d1)
			send(data[c:], uint64(total-c*8), false, d2)
			return
		}
		send(data[:c*esz], uint64(c), true, d1)
		send(data[c*esz:], uint64(n-c), false, d2)
	}
}

func Verif_C23_TypedArrays() {
	types := []events.ArrayType{events.ArrayTypeUint8, events.ArrayTypeUint16, events.ArrayTypeInt16, events.ArrayTypeUint32}
	sizes := []int{1, 2, 2, 4}
	nt := 2 // quick: uint8, uint16
	if verifrt.Thorough() {
		nt = len(types)
	}
	ti := verifrt.Choice("type", nt)
	at, esz := types[ti], sizes[ti]
	n := 2
	if verifrt.Thorough() && esz < 4 {
		n = verifrt.Choice("elems", 2) + 2
	}
	data := verifrt.Bytes("d", n*esz)
	pos := positions()
	c := verifrt.Choice("chunk", n+1)
	d1 := verifrt.Choice("d1", c*esz+1)
	d2 := verifrt.Choice("d2", (n-c)*esz+1)
	whole, rej1 := encode(wrap(pos, func(r events.DataEventReceiver) { r.OnArray(at, uint64(n), data) }))
	split, rej2 := encode(wrap(pos, chunked(func(r events.DataEventReceiver) { r.OnArrayBegin(at) }, esz, 0, data, c, d1, d2)))
	verifrt.Reach("encoded")
	verifrt.Assert(!rej1 && !rej2, "both deliveries are valid")
	verifrt.Assert(len(whole) == len(split), "same text length however the array is chunked")
	verifrt.Assert(verifrt.BytesEq(whole, split), "same text however the array is chunked and split")
}

// One chunk of 3 uint16 (thorough: also uint32) elements delivered as three
// data events split at every pair of byte positions: a data event may both
// complete an element begun by the previous one and end inside the next.
func Verif_C23_ThreeDataEvents() {
	at, esz := events.ArrayTypeUint16, 2
	if verifrt.Thorough() && verifrt.Choice("wide", 2) == 1 {
		at, esz = events.ArrayTypeUint32, 4
	}
	n := 3
	data := verifrt.Bytes("d", n*esz)
	d1 := verifrt.Choice("d1", n*esz-1) + 1 // 1..len-1
	d2 := verifrt.Choice("d2", n*esz-d1) + d1 // d1..len-1
	whole, rej1 := encode(wrap(0, func(r events.DataEventReceiver) { r.OnArray(at, uint64(n), data) }))
	split, rej2 := encode(wrap(0, func(r events.DataEventReceiver) {
		r.OnArrayBegin(at)
		r.OnArrayChunk(uint64(n), false)
		r.OnArrayData(data[:d1])
		if d2 > d1 {
			r.OnArrayData(data[d1:d2])
		}
		r.OnArrayData(data[d2:])
	}))
	verifrt.Reach("encoded")
	verifrt.Assert(!rej1 && !rej2, "both deliveries are valid")
	verifrt.Assert(len(whole) == len(split), "same text length however the chunk's bytes are delivered")
	verifrt.Assert(verifrt.BytesEq(whole, split), "same text however the chunk's bytes are delivered")
}

func Verif_C23_BitArrays() {
	nbytes := verifrt.Choice("bytes", 2) + 1 // every bit is a branch in the encoder: 2^bits paths
	bitsLast := []int{1, 3, 8}[verifrt.Choice("bitsLast", 3)]
	if nbytes == 2 && (!verifrt.Thorough() || bitsLast == 8) {
		bitsLast = 1 // 16 bits (2^16 paths per position and split) do not finish within the thorough budget: thorough stops at 11 bits
	}
	data := verifrt.Bytes("d", nbytes)
	// unused high bits of the last byte are zero (as the marshaler produces them)
	verifrt.Assume(data[nbytes-1]>>uint(bitsLast) == 0 || bitsLast == 8)
	total := (nbytes-1)*8 + bitsLast
	pos := positions()
	c := verifrt.Choice("chunk", nbytes)
	d1 := verifrt.Choice("d1", c+1)
	d2 := verifrt.Choice("d2", nbytes-c+1)
	whole, rej1 := encode(wrap(pos, func(r events.DataEventReceiver) { r.OnArray(events.ArrayTypeBit, uint64(total), data) }))
	split, rej2 := encode(wrap(pos, chunked(func(r events.DataEventReceiver) { r.OnArrayBegin(events.ArrayTypeBit) }, 1, bitsLast, data, c, d1, d2)))
	verifrt.Reach("encoded")
	verifrt.Assert(!rej1 && !rej2, "both deliveries are valid")
	verifrt.Assert(len(whole) == len(split), "same text length however the bit array is chunked")
	verifrt.Assert(verifrt.BytesEq(whole, split), "same text however the bit array is chunked and split")
}

func Verif_C23_Strings() {
	kind := verifrt.Choice("kind", 3)
	n := 2
	if verifrt.Thorough() && kind == 0 {
		n = verifrt.Choice("len", 2) + 2 // 3-byte content for plain strings only (every UTF-8 class of every byte forks)
	}
	data := verifrt.Bytes("s", n)
	pos := positions()
	c := verifrt.Choice("chunk", n+1)
	d1 := verifrt.Choice("d1", c+1)
	d2 := verifrt.Choice("d2", n-c+1)
	var whole, split []byte
	var rej1, rej2 bool
	switch kind {
	case 0:
		whole, rej1 = encode(wrap(pos, func(r events.DataEventReceiver) { r.OnStringlikeArray(events.ArrayTypeString, string(data)) }))
		split, rej2 = encode(wrap(pos, chunked(func(r events.DataEventReceiver) { r.OnArrayBegin(events.ArrayTypeString) }, 1, 0, data, c, d1, d2)))
	case 1:
		whole, rej1 = encode(wrap(pos, func(r events.DataEventReceiver) { r.OnArray(events.ArrayTypeResourceID, uint64(n), data) }))
		split, rej2 = encode(wrap(pos, chunked(func(r events.DataEventReceiver) { r.OnArrayBegin(events.ArrayTypeResourceID) }, 1, 0, data, c, d1, d2)))
	case 2:
		whole, rej1 = encode(wrap(pos, func(r events.DataEventReceiver) { r.OnCustomText(5, string(data)) }))
		split, rej2 = encode(wrap(pos, chunked(func(r events.DataEventReceiver) { r.OnCustomBegin(events.ArrayTypeCustomText, 5) }, 1, 0, data, c, d1, d2)))
	}
	// the property is about valid streams: the whole-string form decides validity
	verifrt.Assume(!rej1)
	verifrt.Reach("encoded")
	if rej2 {
		// the chunked form is invalid only when a chunk boundary cuts a character (C11); not this property's subject
		verifrt.Reach("chunk-cuts-character")
		return
	}
	verifrt.Assert(len(whole) == len(split), "same text length however the string is chunked")
	verifrt.Assert(verifrt.BytesEq(whole, split), "same text however the string is chunked and split")
}

func Verif_C23_MediaAndCustomBinary() {
	kind := verifrt.Choice("kind", 2)
	n := verifrt.Choice("len", 3) + 1
	data := verifrt.Bytes("d", n)
	ct := verifrt.U8("customType")
	pos := positions()
	c := verifrt.Choice("chunk", n+1)
	d1 := verifrt.Choice("d1", c+1)
	d2 := verifrt.Choice("d2", n-c+1)
	var whole, split []byte
	var rej1, rej2 bool
	if kind == 0 {
		whole, rej1 = encode(wrap(pos, func(r events.DataEventReceiver) { r.OnMedia("a/b", data) }))
		split, rej2 = encode(wrap(pos, chunked(func(r events.DataEventReceiver) {
			r.OnMediaBegin("a/b")
		}, 1, 0, data, c, d1, d2)))
	} else {
		whole, rej1 = encode(wrap(pos, func(r events.DataEventReceiver) { r.OnCustomBinary(uint64(ct), data) }))
		split, rej2 = encode(wrap(pos, chunked(func(r events.DataEventReceiver) {
			r.OnCustomBegin(events.ArrayTypeCustomBinary, uint64(ct))
		}, 1, 0, data, c, d1, d2)))
	}
	verifrt.Reach("encoded")
	verifrt.Assert(!rej1 && !rej2, "both deliveries are valid")
	verifrt.Assert(len(whole) == len(split), "same text length however the data is chunked")
	verifrt.Assert(verifrt.BytesEq(whole, split), "same text however the data is chunked and split")
}
