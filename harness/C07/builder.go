//verif:package github.com/kstenerud/go-concise-encoding/builder
//verif:assume the error path of Unmarshal (BuilderEventReceiver.OnError -> Context.ArtificiallyTerminate) is driven directly with the real edge/node/list builders stacked on a recording sink; the rest of the builders (reflection-built) is outside reach
package builder

import (
	"github.com/kstenerud/go-concise-encoding/internal/verifrt"
)

// When decoding fails, Unmarshal tells the builders to wind up (OnError). That
// must terminate whatever container was open and however far it had got.
func Verif_C07_ErrorWhileContainerOpen() {
	kind := verifrt.Choice("container", 2)    // 0 edge, 1 node
	progress := verifrt.Choice("progress", 3) // values delivered before the error
	v := verifrt.U64("v")
	sink := &verifSink{}
	r := verifReceiver(sink)
	switch kind {
	case 0:
		generateEdgeBuilder(&r.context).BuildBeginEdgeContents(&r.context)
	case 1:
		generateNodeBuilder(&r.context).BuildBeginNodeContents(&r.context)
	}
	if kind == 0 {
		for i := 0; i < progress; i++ {
			r.OnPositiveInt(v)
		}
	}
	verifrt.Known("KF-C07-edge-node-error-hang", true)
	verifrt.HangBudget(200000)
	r.OnError()
	verifrt.HangBudget(0)
	verifrt.Reach("returned")
}
