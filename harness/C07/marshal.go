//verif:package github.com/kstenerud/go-concise-encoding/internal/verifh/c07
//verif:bounds the real cbe.Marshaler and cte.Marshaler on 12 values of unsupported or awkward kinds: nil chan, func, complex128, unsafe.Pointer, uintptr, structs / slices / maps / interfaces holding them, nil pointers and nil interfaces at every level, a self-referencing pointer and a self-containing slice and map without recursion support (MaxContainerDepth 40), a value nested deeper than MaxContainerDepth (symbolic limit 1..8)
//verif:assume reflect, sync.Map and WaitGroup are the engine's emulation / sequential model; "returns" = no escaped panic, no exhausted step budget, interpreter call depth below 2000
package c07

import (
	"unsafe"

	"github.com/kstenerud/go-concise-encoding/cbe"
	"github.com/kstenerud/go-concise-encoding/configuration"
	"github.com/kstenerud/go-concise-encoding/cte"
	"github.com/kstenerud/go-concise-encoding/internal/verifh"
	"github.com/kstenerud/go-concise-encoding/internal/verifrt"
)

type m7Cycle struct {
	V    int
	Next *m7Cycle
}

type m7Holder struct {
	A int
	F func()
	C chan int
	P *int
	I interface{}
}

func awkward(which int) interface{} {
	var nilChan chan int
	x := 7
	switch which {
	case 0:
		return nilChan
	case 1:
		return func() {}
	case 2:
		return complex(1, 2)
	case 3:
		return unsafe.Pointer(&x)
	case 4:
		return uintptr(5)
	case 5:
		return m7Holder{A: 1}
	case 6:
		return []interface{}{1, nilChan, nil, (*int)(nil)}
	case 7:
		return map[string]interface{}{"f": func() {}, "n": nil}
	case 8:
		c := &m7Cycle{V: 1}
		c.Next = c
		return c
	case 9:
		s := []interface{}{1, nil}
		s[1] = s
		return s
	case 10:
		m := map[string]interface{}{}
		m["self"] = m
		return m
	}
	// nesting deeper than the configured limit
	var v interface{} = 1
	for i := 0; i < 10; i++ {
		v = []interface{}{v}
	}
	return v
}

func Verif_C07_MarshalAwkwardValues() {
	which := verifrt.Choice("value", 12)
	cfg := configuration.New()
	if which == 11 {
		d := verifrt.U64("MaxContainerDepth")
		verifrt.Assume(d >= 1 && d <= 8)
		cfg.Rules.MaxContainerDepth = d
	}
	if which >= 8 && which <= 10 {
		// the walk of a self-containing value ends at the depth limit; the default
		// (1000 containers) is deeper than the interpreter's own call-depth cap
		cfg.Rules.MaxContainerDepth = 40
	}
	v := awkward(which)
	verifrt.Known("KF-C07-marshal-cycle-stack-overflow", which >= 8 && which <= 10)
	verifrt.HangBudget(3000000)
	var err error
	if verifrt.Choice("format", 2) == 0 {
		err = cbe.NewMarshaler(cfg).Marshal(v, &verifh.Sink{})
	} else {
		err = cte.NewMarshaler(cfg).Marshal(v, &verifh.Sink{})
	}
	verifrt.HangBudget(0)
	verifrt.Reach("returned")
	if which <= 3 || (which >= 8 && which <= 10) {
		verifrt.Assert(err != nil, "an unsupported kind and a self-containing value without recursion support are reported as errors")
	}
}
