//verif:package github.com/kstenerud/go-concise-encoding/internal/verifh/c07
//verif:bounds the real cbe.Unmarshaler.Unmarshal / UnmarshalFromDocument with typed templates (8 Go types: struct with an unknown key in the document, struct with pointer and slice fields, *[]string, map[string][]uint8, []interface{}, [2]uint16, edge and node holders, interface{}, and two documents written event by event: a marker at the top level, an unknown struct key whose value is an edge) on the document the real cbe.Marshaler produces for a sample value (1 symbolic payload), cut at every position (symbolic payload) and with one byte replaced by a symbolic byte (fixed payload; quick: among the first 10 positions, thorough: at every position)
//verif:assume reflect, sync.Map and WaitGroup are the engine's emulation / sequential model
package c07

import (
	"github.com/kstenerud/go-concise-encoding/cbe"
	"github.com/kstenerud/go-concise-encoding/ce/events"
	"github.com/kstenerud/go-concise-encoding/configuration"
	"github.com/kstenerud/go-concise-encoding/internal/verifh"
	"github.com/kstenerud/go-concise-encoding/internal/verifrt"
	"github.com/kstenerud/go-concise-encoding/rules"
	"github.com/kstenerud/go-concise-encoding/types"
)

type T7Known struct {
	A uint16
}

type T7Wide struct {
	A     uint16
	Extra []string
	B     uint8
}

type T7Ptrs struct {
	P *[]uint16
	L []string
	M map[string]*T7Known
}

type T7Graph struct {
	E types.Edge
	N types.Node
}

const numTyped = 10

// typedSample returns a value to marshal and the template to unmarshal into
// (the template of case 0 lacks a field the document has).
func typedSample(which int, v uint16) (value, template interface{}) {
	switch which {
	case 0:
		return T7Wide{A: v, Extra: []string{"x", "y"}, B: 3}, T7Known{}
	case 1:
		l := []uint16{v, 2}
		return T7Ptrs{P: &l, L: []string{"a"}, M: map[string]*T7Known{"k": {A: v}}}, T7Ptrs{}
	case 2:
		s := []string{"a", "b"}
		return &s, &[]string{}
	case 3:
		return map[string][]uint8{"k": {byte(v), 2}}, map[string][]uint8{}
	case 4:
		return []interface{}{v, "s", []interface{}{nil}, map[interface{}]interface{}{"k": v}}, []interface{}{}
	case 5:
		return [2]uint16{v, 7}, [2]uint16{}
	case 6:
		return T7Graph{E: types.Edge{Source: v, Description: "d", Destination: 1}, N: types.Node{Value: v, Children: []interface{}{"c"}}}, T7Graph{}
	}
	return map[interface{}]interface{}{"k": []interface{}{v}}, nil
}

// eventDoc writes documents that no Go value marshals to (without recursion
// support): a marker at the top level; a struct key the template does not have
// whose value is an edge.
func eventDoc(which int, v uint16) (doc []byte, template interface{}) {
	cfg := configuration.New()
	sink := &verifh.Sink{}
	enc := cbe.NewEncoder(cfg)
	enc.PrepareToEncode(sink)
	r := rules.NewRules(enc, cfg)
	r.OnBeginDocument()
	r.OnVersion(0)
	if which == 8 {
		r.OnMarker([]byte("a"))
		r.OnList()
		r.OnPositiveInt(uint64(v))
		r.OnReferenceLocal([]byte("a"))
		r.OnEndContainer()
		r.OnEndDocument()
		return sink.Buf, nil
	}
	r.OnMap()
	r.OnStringlikeArray(events.ArrayTypeString, "a")
	r.OnPositiveInt(uint64(v))
	r.OnStringlikeArray(events.ArrayTypeString, "unknown")
	r.OnEdge()
	r.OnPositiveInt(1)
	r.OnPositiveInt(2)
	r.OnPositiveInt(3)
	r.OnEndContainer()
	r.OnEndContainer()
	r.OnEndDocument()
	return sink.Buf, T7Known{}
}

// However a typed document is damaged, Unmarshal returns (a value or an
// error): it does not hang and no panic escapes it.
func typedDamaged(cut bool) {
	which := verifrt.Choice("type", numTyped)
	v := uint16(0x1234)
	if cut {
		v = verifrt.U16("payload")
	}
	cfg := configuration.New()
	var doc []byte
	var template interface{}
	if which >= 8 {
		doc, template = eventDoc(which, v)
	} else {
		var value interface{}
		value, template = typedSample(which, v)
		sink := &verifh.Sink{}
		if err := cbe.NewMarshaler(cfg).Marshal(value, sink); err != nil {
			verifrt.Assume(false) // not marshalable: nothing to damage
		}
		doc = sink.Buf
	}
	verifrt.Assume(len(doc) <= 48)
	pos := verifrt.Choice("position", 48)
	verifrt.Assume(pos < len(doc))
	if cut {
		doc = doc[:pos]
	} else {
		// quick tier: a replaced byte among the first 10 (signature, version, outer headers)
		verifrt.Assume(verifrt.Thorough() || pos < 10)
		doc = append([]byte(nil), doc...)
		doc[pos] = verifrt.U8("byte")
	}
	verifrt.Known("KF-C07-unwind-hang", true)
	verifrt.AllocBudget(1 << 26)
	verifrt.HangBudget(2000000)
	_, err := cbe.NewUnmarshaler(cfg).UnmarshalFromDocument(doc, template)
	verifrt.HangBudget(0)
	verifrt.Reach("returned")
	_ = err
}

func Verif_C07_TypedUnmarshalCut()          { typedDamaged(true) }
func Verif_C07_TypedUnmarshalByteReplaced() { typedDamaged(false) }
