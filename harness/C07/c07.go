//verif:package github.com/kstenerud/go-concise-encoding/internal/verifh/c07
//verif:config cap=300 paths=600000 maxsec=1800
//verif:bounds CBE / universal byte-level entry points on documents of 0..4 fully symbolic bytes (quick) / 0..5 (thorough), with rules on and off; structured 6..8 byte documents (signature, version, symbolic type bytes and length fields)
//verif:assume template types and marshaling of unsupported kinds go through reflection (outside reach); the CTE parser proper (ANTLR) is outside reach; "never blocks" is checked as a step budget per path
package c07

import (
	"bytes"

	"github.com/kstenerud/go-concise-encoding/cbe"
	"github.com/kstenerud/go-concise-encoding/ce"
	"github.com/kstenerud/go-concise-encoding/ce/events"
	"github.com/kstenerud/go-concise-encoding/configuration"
	"github.com/kstenerud/go-concise-encoding/internal/verifh"
	"github.com/kstenerud/go-concise-encoding/internal/verifrt"
	"github.com/kstenerud/go-concise-encoding/nullevent"
	"github.com/kstenerud/go-concise-encoding/rules"
)

func receiver(withRules bool, cfg *configuration.Configuration) events.DataEventReceiver {
	if withRules {
		return rules.NewRules(nullevent.NewNullEventReceiver(), cfg)
	}
	return nullevent.NewNullEventReceiver()
}

func maxLen() int {
	if verifrt.Thorough() {
		return 5
	}
	return 4
}

// Any byte string: the CBE decoder returns (a result or an error); a panic
// escaping the entry point is reported by the engine as a violation.
func Verif_C07_CBEDecodeDocument() {
	n := verifrt.Choice("len", maxLen()+1)
	doc := verifrt.Bytes("d", n)
	withRules := verifrt.Choice("rules", 2) == 0
	cfg := configuration.New()
	verifrt.AllocBudget(1 << 26)
	err := cbe.NewDecoder(cfg).DecodeDocument(doc, receiver(withRules, cfg))
	verifrt.Reach("returned")
	_ = err
}

func Verif_C07_CBEDecodeStream() {
	n := verifrt.Choice("len", maxLen())
	doc := verifrt.Bytes("d", n)
	cfg := configuration.New()
	verifrt.AllocBudget(1 << 26)
	err := cbe.NewDecoder(cfg).Decode(bytes.NewBuffer(doc), receiver(true, cfg))
	verifrt.Reach("returned")
	_ = err
}

// Universal entry points, including the empty document.
func Verif_C07_UniversalDecodeDocument() {
	n := verifrt.Choice("len", 4)
	doc := verifrt.Bytes("d", n)
	if n > 0 {
		verifrt.Assume(doc[0] != 'c' && doc[0] != 'C') // CTE documents end in the ANTLR parser
	}
	cfg := configuration.New()
	verifrt.AllocBudget(1 << 26)
	dec := ce.NewCEDecoder(cfg)
	verifrt.Known("KF-C07-universal-empty", n == 0)
	err := dec.DecodeDocument(doc, receiver(true, cfg))
	verifrt.Reach("returned")
	if n == 0 {
		verifrt.Assert(err != nil, "empty input is an error, not a success")
	}
}

func Verif_C07_UniversalDecodeStream() {
	n := verifrt.Choice("len", 4)
	doc := verifrt.Bytes("d", n)
	if n > 0 {
		verifrt.Assume(doc[0] != 'c' && doc[0] != 'C')
	}
	cfg := configuration.New()
	verifrt.AllocBudget(1 << 26)
	err := ce.NewCEDecoder(cfg).Decode(bytes.NewBuffer(doc), receiver(true, cfg))
	verifrt.Reach("returned")
	if n == 0 {
		verifrt.Assert(err != nil, "empty input is an error, not a success")
	}
}

// Structured documents: valid header, then symbolic type byte(s) and length
// fields, so that every header kind with an oversized or truncated length is
// reached with a handful of symbolic bytes.
func Verif_C07_CBEHeaders() {
	h := verifh.CBEHeaders[verifrt.Choice("header", len(verifh.CBEHeaders))]
	withRules := verifrt.Choice("rules", 2) == 0
	n := 4
	if !withRules && !verifrt.Thorough() {
		n = 3
	}
	tail := verifrt.Bytes("t", n) // thorough: 4 bytes in both modes (5 exceed the 50-minute budget)
	doc := append([]byte{0x81, 0x00}, h...)
	doc = append(doc, tail...)
	cfg := configuration.New()
	verifrt.AllocBudget(1 << 26)
	err := cbe.NewDecoder(cfg).DecodeDocument(doc, receiver(withRules, cfg))
	verifrt.Reach("returned")
	_ = err
}
