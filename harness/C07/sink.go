//verif:package github.com/kstenerud/go-concise-encoding/builder
package builder

import (
	"math/big"
	"reflect"

	"github.com/cockroachdb/apd/v2"
	compact_float "github.com/kstenerud/go-compact-float"
	compact_time "github.com/kstenerud/go-compact-time"
	"github.com/kstenerud/go-concise-encoding/ce/events"
)

// verifSink is a Builder that records what the event receiver hands it.
type verifSink struct {
	kind    string
	i       int64
	u       uint64
	f       float64
	bi      *big.Int
	calls   int
	arrType events.ArrayType
	elemCount uint64
	arr     []byte
	str     string
}

func (s *verifSink) note(kind string) reflect.Value { s.kind = kind; s.calls++; return reflect.Value{} }

func (s *verifSink) BuildFromNull(ctx *Context, dst reflect.Value) reflect.Value { return s.note("null") }
func (s *verifSink) BuildFromBool(ctx *Context, value bool, dst reflect.Value) reflect.Value {
	return s.note("bool")
}
func (s *verifSink) BuildFromInt(ctx *Context, value int64, dst reflect.Value) reflect.Value {
	s.i = value
	return s.note("int")
}
func (s *verifSink) BuildFromUint(ctx *Context, value uint64, dst reflect.Value) reflect.Value {
	s.u = value
	return s.note("uint")
}
func (s *verifSink) BuildFromBigInt(ctx *Context, value *big.Int, dst reflect.Value) reflect.Value {
	s.bi = value
	return s.note("bigint")
}
func (s *verifSink) BuildFromFloat(ctx *Context, value float64, dst reflect.Value) reflect.Value {
	s.f = value
	return s.note("float")
}
func (s *verifSink) BuildFromBigFloat(ctx *Context, value *big.Float, dst reflect.Value) reflect.Value {
	return s.note("bigfloat")
}
func (s *verifSink) BuildFromDecimalFloat(ctx *Context, value compact_float.DFloat, dst reflect.Value) reflect.Value {
	return s.note("dfloat")
}
func (s *verifSink) BuildFromBigDecimalFloat(ctx *Context, value *apd.Decimal, dst reflect.Value) reflect.Value {
	return s.note("bigdfloat")
}
func (s *verifSink) BuildFromUID(ctx *Context, value []byte, dst reflect.Value) reflect.Value {
	return s.note("uid")
}
func (s *verifSink) BuildFromArray(ctx *Context, arrayType events.ArrayType, value []byte, dst reflect.Value) reflect.Value {
	s.arrType = arrayType
	s.arr = append([]byte(nil), value...)
	return s.note("array")
}
func (s *verifSink) BuildFromStringlikeArray(ctx *Context, arrayType events.ArrayType, value string, dst reflect.Value) reflect.Value {
	s.arrType = arrayType
	s.str = value
	return s.note("stringarray")
}
func (s *verifSink) BuildFromCustomBinary(ctx *Context, customType uint64, data []byte, dst reflect.Value) reflect.Value {
	s.arr = append([]byte(nil), data...)
	return s.note("custombinary")
}
func (s *verifSink) BuildFromCustomText(ctx *Context, customType uint64, data string, dst reflect.Value) reflect.Value {
	s.str = data
	return s.note("customtext")
}
func (s *verifSink) BuildFromMedia(ctx *Context, mediaType string, data []byte, dst reflect.Value) reflect.Value {
	s.str = mediaType
	s.arr = append([]byte(nil), data...)
	return s.note("media")
}
func (s *verifSink) BuildFromTime(ctx *Context, value compact_time.Time, dst reflect.Value) reflect.Value {
	return s.note("time")
}
func (s *verifSink) BuildFromLocalReference(ctx *Context, id []byte)                    { s.note("ref") }
func (s *verifSink) BuildNewList(ctx *Context)                                          { s.note("list") }
func (s *verifSink) BuildNewMap(ctx *Context)                                           { s.note("map") }
func (s *verifSink) BuildNewNode(ctx *Context)                                          { s.note("node") }
func (s *verifSink) BuildNewEdge(ctx *Context)                                          { s.note("edge") }
func (s *verifSink) BuildEndContainer(ctx *Context)                                     { s.note("end") }
func (s *verifSink) BuildArtificiallyEndContainer(ctx *Context)                         { s.note("aend") }
func (s *verifSink) BuildBeginListContents(ctx *Context)                                {}
func (s *verifSink) BuildBeginMapContents(ctx *Context)                                 {}
func (s *verifSink) BuildBeginNodeContents(ctx *Context)                                {}
func (s *verifSink) BuildBeginEdgeContents(ctx *Context)                                {}
func (s *verifSink) NotifyChildContainerFinished(ctx *Context, container reflect.Value) {}

// verifReceiver builds an event receiver whose current builder is the sink.
func verifReceiver(sink *verifSink) *BuilderEventReceiver {
	r := &BuilderEventReceiver{}
	r.context.CurrentBuilder = sink
	r.context.builderStack = []Builder{sink}
	return r
}
