//verif:package github.com/kstenerud/go-concise-encoding/internal/verifh/c01
//verif:config maxsec=1800
//verif:bounds every payload bit symbolic; one value per slot; positions: top level, list, map key, map value; typed arrays (uint8, uint16, int32, float64, UID) of 0..2 elements (byte arrays 0,1,15,16,17) whole and in 2 chunks at every boundary; strings/resource ids of 0,1,2,15,16 ASCII bytes whole/array/chunked; markers+references, record types+records, nodes, edges, media, custom binary, UID, NaN, decimal floats (32-bit coefficient*10+digit)
//verif:assume big.Int/big.Float/apd.Decimal payloads, times, comments/padding and nesting deeper than 2 are not generated yet
package c01

import (
	"math/big"
	compact_time "github.com/kstenerud/go-compact-time"
	compact_float "github.com/kstenerud/go-compact-float"
	"math"

	"github.com/kstenerud/go-concise-encoding/cbe"
	"github.com/kstenerud/go-concise-encoding/ce/events"
	"github.com/kstenerud/go-concise-encoding/configuration"
	"github.com/kstenerud/go-concise-encoding/internal/verifh"
	"github.com/kstenerud/go-concise-encoding/internal/verifrt"
	"github.com/kstenerud/go-concise-encoding/rules"
)

// roundTrip sends a document through rules -> CBE encoder, decodes the bytes
// with the CBE decoder + rules, and returns what was sent (as forwarded by the
// first validator) and what came out.
func roundTrip(send func(r events.DataEventReceiver)) (sent, got *verifh.Rec, doc []byte, err error) {
	cfg := configuration.New()
	sink := &verifh.Sink{}
	enc := cbe.NewEncoder(cfg)
	enc.PrepareToEncode(sink)
	sent = &verifh.Rec{}
	// first pass: record what the validator forwards
	r1 := rules.NewRules(sent, cfg)
	if verifh.Try(func() { send(r1) }) {
		verifrt.Assume(false) // template is not rules-valid for these payloads
	}
	// second pass: encode
	r2 := rules.NewRules(enc, cfg)
	send(r2)
	doc = sink.Buf
	got = &verifh.Rec{}
	dec := cbe.NewDecoder(cfg)
	err = dec.DecodeDocument(doc, rules.NewRules(got, cfg))
	return
}

// wrap places value() at a chosen position of a document.
func wrap(pos int, value func(r events.DataEventReceiver)) func(r events.DataEventReceiver) {
	return func(r events.DataEventReceiver) {
		r.OnBeginDocument()
		r.OnVersion(0)
		switch pos {
		case 0:
			value(r)
		case 1:
			r.OnList()
			value(r)
			r.OnEndContainer()
		case 2:
			r.OnMap()
			value(r)
			r.OnNull()
			r.OnEndContainer()
		case 3:
			r.OnMap()
			r.OnTrue()
			value(r)
			r.OnEndContainer()
		}
		r.OnEndDocument()
	}
}

// valueIndex is the index of the value event in the recorded stream for wrap().
func valueIndex(pos int) int {
	switch pos {
	case 0:
		return 2
	case 1, 2:
		return 3
	}
	return 4
}

func sameLen(sent, got *verifh.Rec) {
	verifrt.Assert(len(sent.Evs) == len(got.Evs), "same number of events")
}

func Verif_C01_Ints() {
	form := verifrt.Choice("form", 3)
	pos := verifrt.Choice("pos", 4)
	v := verifrt.U64("v")
	if form == 1 {
		verifrt.Assume(v != 0 || pos != 2) // NegativeInt(0) is -0.0: not keyable
	}
	sent, got, _, err := roundTrip(wrap(pos, func(r events.DataEventReceiver) {
		switch form {
		case 0:
			r.OnPositiveInt(v)
		case 1:
			r.OnNegativeInt(v)
		case 2:
			r.OnInt(int64(v))
		}
	}))
	verifrt.Reach("decoded")
	verifrt.Assert(err == nil, "encoder output decodes")
	sameLen(sent, got)
	k := valueIndex(pos)
	s, g := sent.Evs[k], got.Evs[k]
	if form == 1 && !verifrt.Symbolic() && v == 0 {
		return
	}
	okS, negS, magS := verifh.IntValue(s)
	okG, negG, magG := verifh.IntValue(g)
	// -0 (NegativeInt 0) may legitimately come back as a float -0
	if form == 1 {
		if v == 0 {
			verifrt.Reach("negzero")
			verifrt.Assert(g.K == verifh.KFloat && g.U == 1<<63 || g.K == verifh.KNegInt && g.U == 0, "negative zero survives")
			return
		}
	}
	verifrt.Assert(okS && okG, "integer comes back as an integer event")
	verifrt.Assert(verifrt.And(magS == magG, verifrt.Or(negS == negG, magS == 0)), "integer value preserved")
}

func Verif_C01_Float() {
	pos := verifrt.Choice("pos", 3) // floats are not keyable: top, list, map value
	if pos == 2 {
		pos = 3
	}
	bits := verifrt.U64("bits")
	f := math.Float64frombits(bits)
	sent, got, _, err := roundTrip(wrap(pos, func(r events.DataEventReceiver) { r.OnFloat(f) }))
	verifrt.Reach("decoded")
	verifrt.Assert(err == nil, "encoder output decodes")
	sameLen(sent, got)
	k := valueIndex(pos)
	s, g := sent.Evs[k], got.Evs[k]
	if s.K == verifh.KNan {
		verifrt.Reach("nan")
		verifrt.Assert(g.K == verifh.KNan && g.B == s.B, "NaN keeps its quiet/signalling kind")
		return
	}
	if bits<<1 == 0 || bits<<1 == 0x7ff0000000000000<<1 {
		verifrt.Reach("special")
		verifrt.Assert(verifh.FloatSpecialEq(bits, g), "zero/infinity keeps value and sign")
		return
	}
	verifrt.Assert(g.K == verifh.KFloat && g.U == bits, "binary float is bit-exact")
}

// ---- arrays, strings, identifiers -------------------------------------------

func sameEvent(s, g verifh.Ev) bool {
	// integers are equal by value, whatever event form carries them
	okS, negS, magS := verifh.IntValue(s)
	okG, negG, magG := verifh.IntValue(g)
	if okS || okG {
		return verifrt.And(okS, okG, magS == magG, verifrt.Or(negS == negG, magS == 0))
	}
	return verifrt.And(s.K == g.K, s.U == g.U, s.U2 == g.U2, s.B == g.B, verifrt.BytesEq(s.S, g.S), verifrt.BytesEq(s.S2, g.S2))
}

// normalizeArrays merges every (ArrayBegin, chunk/data...) run and every whole
// array event into one KArray event (type, element count, concatenated bytes):
// CBE may re-chunk, so streams are compared after this normalisation.
func normalizeArrays(in []verifh.Ev) []verifh.Ev {
	var out []verifh.Ev
	for i := 0; i < len(in); i++ {
		e := in[i]
		switch e.K {
		case verifh.KStringArray:
			out = append(out, verifh.Ev{K: verifh.KArray, U: e.U, U2: uint64(len(e.S)), S: e.S})
		case verifh.KArrayBegin:
			acc := verifh.Ev{K: verifh.KArray, U: e.U}
			for i+1 < len(in) && (in[i+1].K == verifh.KArrayChunk || in[i+1].K == verifh.KArrayData) {
				i++
				if in[i].K == verifh.KArrayChunk {
					acc.U2 += in[i].U
				} else {
					acc.S = append(acc.S, in[i].S...)
				}
			}
			out = append(out, acc)
		default:
			out = append(out, e)
		}
	}
	return out
}

func assertSameStream(sent, got *verifh.Rec) {
	s, g := normalizeArrays(sent.Evs), normalizeArrays(got.Evs)
	verifrt.Assert(len(s) == len(g), "same number of events after array normalisation")
	if len(s) != len(g) {
		return
	}
	ok := true
	for i := range s {
		ok = verifrt.And(ok, sameEvent(s[i], g[i]))
	}
	verifrt.Assert(ok, "decoded stream equals the sent stream")
}

var arrayKinds = []events.ArrayType{events.ArrayTypeUint8, events.ArrayTypeUint16, events.ArrayTypeInt32, events.ArrayTypeFloat64, events.ArrayTypeUID}
var arrayWidths = []int{1, 2, 4, 8, 16}

// Typed arrays, whole and chunked at every element boundary, around the
// short-form limit (15 elements) for byte arrays.
func Verif_C01_TypedArrays() {
	ki := verifrt.Choice("kind", len(arrayKinds))
	at, w := arrayKinds[ki], arrayWidths[ki]
	var n int
	if w == 1 {
		n = []int{0, 1, 15, 16, 17}[verifrt.Choice("elems", 5)]
	} else {
		n = verifrt.Choice("elems", 3)
	}
	data := verifrt.Bytes("d", n*w)
	pos := verifrt.Choice("pos", 2)
	if pos == 1 {
		pos = 3 // arrays are not keyable: top level and map value
	}
	form := verifrt.Choice("form", 2)
	sent, got, _, err := roundTrip(wrap(pos, func(r events.DataEventReceiver) {
		if form == 0 {
			r.OnArray(at, uint64(n), data)
			return
		}
		c := verifrt.Choice("chunk", n+1)
		r.OnArrayBegin(at)
		r.OnArrayChunk(uint64(c), true)
		if c > 0 {
			r.OnArrayData(data[:c*w])
		}
		r.OnArrayChunk(uint64(n-c), false)
		if n-c > 0 {
			r.OnArrayData(data[c*w:])
		}
	}))
	verifrt.Reach("decoded")
	verifrt.Assert(err == nil, "encoder output decodes")
	assertSameStream(sent, got)
}

func asciiBytes(tag string, n int) []byte {
	b := verifrt.Bytes(tag, n)
	for _, c := range b {
		verifrt.Assume(c >= 0x20 && c < 0x7f)
	}
	return b
}

// Strings and resource ids in every position, lengths around the short-string limit.
func Verif_C01_Strings() {
	kind := verifrt.Choice("kind", 2)
	at := []events.ArrayType{events.ArrayTypeString, events.ArrayTypeResourceID}[kind]
	n := []int{0, 1, 2, 15, 16}[verifrt.Choice("len", 5)]
	text := asciiBytes("s", n)
	pos := []int{0, 2}[verifrt.Choice("pos", 2)] // top level and map key
	if verifrt.Thorough() {
		pos = verifrt.Choice("posT", 4)
	}
	form := verifrt.Choice("form", 3)
	sent, got, _, err := roundTrip(wrap(pos, func(r events.DataEventReceiver) {
		switch form {
		case 0:
			r.OnStringlikeArray(at, string(text))
		case 1:
			r.OnArray(at, uint64(n), text)
		case 2:
			c := verifrt.Choice("chunk", n+1)
			r.OnArrayBegin(at)
			r.OnArrayChunk(uint64(c), true)
			if c > 0 {
				r.OnArrayData(text[:c])
			}
			r.OnArrayChunk(uint64(n-c), false)
			if n-c > 0 {
				r.OnArrayData(text[c:])
			}
		}
	}))
	verifrt.Reach("decoded")
	verifrt.Assert(err == nil, "encoder output decodes")
	assertSameStream(sent, got)
}

func ident(tag string, n int) []byte {
	b := verifrt.Bytes(tag, n)
	for _, c := range b {
		verifrt.Assume(verifrt.Or(verifrt.And(c >= 'a', c <= 'z'), verifrt.And(c >= '0', c <= '9'), c == '_'))
	}
	return b
}

// Markers, references, record types, records, nodes, edges, media, custom
// binary, UID, decimal floats, NaN: structure and identifiers survive.
func Verif_C01_Structures() {
	structures(verifrt.Choice("which", 4))
}

func Verif_C01_MediaCustomUIDDecimal() {
	structures(verifrt.Choice("which", 4) + 4)
}

func structures(which int) {
	id := ident("id", verifrt.Choice("idlen", 2)+1)
	v := verifrt.U64("v")
	data := verifrt.Bytes("d", 3)
	uid := verifrt.Bytes("uid", 16)
	exp := verifrt.I32("exp")
	// a coefficient without trailing decimal zeros (so that its minimal form is itself) and away from MinInt64
	coef := int64(verifrt.I32("coefHigh"))*10 + int64(verifrt.Choice("coefLastDigit", 9)+1)
	sent, got, _, err := roundTrip(func(r events.DataEventReceiver) {
		r.OnBeginDocument()
		r.OnVersion(0)
		switch which {
		case 0:
			r.OnList()
			r.OnMarker(id)
			r.OnPositiveInt(v)
			r.OnReferenceLocal(id)
			r.OnEndContainer()
		case 1:
			r.OnRecordType(id)
			r.OnPositiveInt(1)
			r.OnStringlikeArray(events.ArrayTypeString, "k")
			r.OnEndContainer()
			r.OnRecord(id)
			r.OnPositiveInt(v)
			r.OnNull()
			r.OnEndContainer()
		case 2:
			r.OnNode()
			r.OnPositiveInt(v)
			r.OnNode()
			r.OnNull()
			r.OnEndContainer()
			r.OnTrue()
			r.OnEndContainer()
		case 3:
			r.OnEdge()
			r.OnPositiveInt(v)
			r.OnNull()
			r.OnStringlikeArray(events.ArrayTypeString, "dst")
			r.OnEndContainer()
		case 4:
			r.OnMedia("text/x", data)
		case 5:
			r.OnCustomBinary(v&0xffffffff, data)
		case 6:
			r.OnMap()
			r.OnUID(uid)
			r.OnNan(v&1 == 1)
			r.OnEndContainer()
		case 7:
			d := compact_float.DFloatValue(exp, coef)
			verifrt.Assume(!d.IsSpecial())
			r.OnList()
			r.OnDecimalFloat(d)
			r.OnEndContainer()
		}
		r.OnEndDocument()
	})
	verifrt.Reach("decoded")
	verifrt.Assert(err == nil, "encoder output decodes")
	if which == 4 {
		// media may come back as begin/chunk/data events: compare type and payload
		verifrt.Assert(len(got.Evs) >= 3, "media events present")
		var payload []byte
		var mt []byte
		for _, e := range got.Evs {
			switch e.K {
			case verifh.KMedia:
				mt, payload = e.S2, e.S
			case verifh.KMediaBegin:
				mt = e.S2
			case verifh.KArrayData:
				payload = append(payload, e.S...)
			}
		}
		verifrt.Assert(verifrt.BytesEq(mt, []byte("text/x")), "media type survives")
		verifrt.Assert(verifrt.BytesEq(payload, data), "media payload survives")
		return
	}
	if which == 5 {
		var payload []byte
		ct := uint64(0)
		for _, e := range got.Evs {
			switch e.K {
			case verifh.KCustomBinary:
				ct, payload = e.U, e.S
			case verifh.KCustomBegin:
				ct = e.U2
			case verifh.KArrayData:
				payload = append(payload, e.S...)
			}
		}
		verifrt.Assert(ct == v&0xffffffff, "custom type code survives")
		verifrt.Assert(verifrt.BytesEq(payload, data), "custom binary payload survives")
		return
	}
	if which == 7 {
		g := got.Evs[3]
		verifrt.Assert(g.K == verifh.KDecimalFloat, "decimal float comes back as a decimal float")
		// equal by value: coefficient * 10^exponent; the encoder may not change either field here
		verifrt.Assert(verifrt.And(g.U == uint64(coef), g.U2 == uint64(int64(exp))), "decimal float keeps coefficient and exponent")
		return
	}
	assertSameStream(sent, got)
}

// ---- big integers and times ---------------------------------------------------

func Verif_C01_BigInt() {
	w0, w1 := verifrt.U64("w0"), verifrt.U64("w1")
	neg := verifrt.Bool("neg")
	words := verifrt.Choice("words", 2) + 1
	if words == 1 {
		verifrt.Assume(w1 == 0)
	} else {
		verifrt.Assume(w1 != 0)
	}
	b := new(big.Int).SetBits([]big.Word{big.Word(w0), big.Word(w1)})
	if neg {
		b.Neg(b)
	}
	pos := verifrt.Choice("pos", 2) // top level, list
	_, got, _, err := roundTrip(wrap(pos, func(r events.DataEventReceiver) { r.OnBigInt(b) }))
	verifrt.Reach("decoded")
	verifrt.Assert(err == nil, "encoder output decodes")
	g := got.Evs[valueIndex(pos)]
	isZero := verifrt.And(w0 == 0, w1 == 0)
	if words == 1 {
		// fits 64 bits of magnitude: may come back in any integer form
		ok, gneg, gmag := verifh.IntValue(g)
		if g.K == verifh.KBigInt {
			verifrt.Assert(verifrt.And(len(g.S) <= 8, g.B == verifrt.And(neg, !isZero)), "big integer of one word keeps sign")
			return
		}
		verifrt.Assert(ok, "integer comes back as an integer event")
		verifrt.Assert(verifrt.And(gmag == w0, verifrt.Or(gmag == 0, gneg == neg)), "integer value preserved")
		return
	}
	verifrt.Assert(g.K == verifh.KBigInt, "a 128-bit integer comes back as a big integer")
	verifrt.Assert(g.B == neg, "big integer keeps its sign")
	want := make([]byte, 16)
	for k := 0; k < 8; k++ {
		want[k] = byte(w0 >> (8 * uint(k)))
		want[8+k] = byte(w1 >> (8 * uint(k)))
	}
	verifrt.Assert(verifrt.BytesEq(g.S, want), "big integer keeps its magnitude")
}

func sameTime(a, b compact_time.Time) bool {
	return verifrt.And(a.Type == b.Type, a.Year == b.Year, a.Month == b.Month, a.Day == b.Day,
		a.Hour == b.Hour, a.Minute == b.Minute, a.Second == b.Second, a.Nanosecond == b.Nanosecond,
		a.Timezone.Type == b.Timezone.Type, a.Timezone.MinutesOffsetFromUTC == b.Timezone.MinutesOffsetFromUTC,
		a.Timezone.LatitudeHundredths == b.Timezone.LatitudeHundredths, a.Timezone.LongitudeHundredths == b.Timezone.LongitudeHundredths,
		a.Timezone.ShortAreaLocation == b.Timezone.ShortAreaLocation, a.Timezone.LongAreaLocation == b.Timezone.LongAreaLocation)
}

func Verif_C01_Dates() {
	year := int(verifrt.I32("year"))
	month := int(verifrt.U8("month"))
	day := int(verifrt.U8("day"))
	verifrt.Assume(year != 0 && year > -100000 && year < 100000)
	verifrt.Assume(month >= 1 && month <= 12 && day >= 1 && day <= 28)
	t := compact_time.NewDate(year, month, day)
	verifrt.Assume(t.Validate() == nil)
	pos := verifrt.Choice("pos", 2) * 2 // top level, map key
	_, got, _, err := roundTrip(wrap(pos, func(r events.DataEventReceiver) { r.OnTime(t) }))
	verifrt.Reach("decoded")
	verifrt.Assert(err == nil, "encoder output decodes")
	g := got.Evs[valueIndex(pos)]
	verifrt.Assert(g.K == verifh.KTime, "date comes back as a time event")
	verifrt.Assert(sameTime(g.T, t), "date equal field by field")
}

func Verif_C01_TimesOfDay() {
	hour, minute, second := int(verifrt.U8("hour")), int(verifrt.U8("minute")), int(verifrt.U8("second"))
	verifrt.Assume(hour <= 23 && minute <= 59 && second <= 59)
	nanos := 0
	switch verifrt.Choice("subsecond", 4) {
	case 1:
		ms := int(verifrt.U16("ms"))
		verifrt.Assume(ms >= 1 && ms <= 999)
		nanos = ms * 1000000
	case 2:
		us := int(verifrt.U16("us"))
		verifrt.Assume(us >= 1 && us <= 999)
		nanos = us*1000 + 1000000
	case 3:
		ns := int(verifrt.U16("ns"))
		verifrt.Assume(ns >= 1 && ns <= 999)
		nanos = ns
	}
	var tz compact_time.Timezone
	switch verifrt.Choice("zone", 4) {
	case 0:
		tz = compact_time.TZAtUTC()
	case 1:
		tz = compact_time.TZLocal()
	case 2:
		off := int(verifrt.I16("offsetMinutes"))
		verifrt.Assume(off >= -1439 && off <= 1439 && off != 0)
		tz = compact_time.TZWithMiutesOffsetFromUTC(off)
	case 3:
		lat, long := int(verifrt.I16("lat")), int(verifrt.I16("long"))
		verifrt.Assume(lat >= -9000 && lat <= 9000 && long >= -18000 && long <= 18000)
		tz = compact_time.TZAtLatLong(lat, long)
	}
	t := compact_time.NewTime(hour, minute, second, nanos, tz)
	verifrt.Assume(t.Validate() == nil)
	_, got, _, err := roundTrip(wrap(0, func(r events.DataEventReceiver) { r.OnTime(t) }))
	verifrt.Reach("decoded")
	verifrt.Assert(err == nil, "encoder output decodes")
	g := got.Evs[valueIndex(0)]
	verifrt.Assert(g.K == verifh.KTime, "time comes back as a time event")
	verifrt.Assert(sameTime(g.T, t), "time equal field by field, including the time zone form")
}
