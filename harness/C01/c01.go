//verif:package github.com/kstenerud/go-concise-encoding/internal/verifh/c01
//verif:bounds scalars: every payload bit symbolic; one value per slot; positions: top level, list, map key, map value
package c01

import (
	"math"

	"github.com/kstenerud/go-concise-encoding/cbe"
	"github.com/kstenerud/go-concise-encoding/ce/events"
	"github.com/kstenerud/go-concise-encoding/configuration"
	"github.com/kstenerud/go-concise-encoding/internal/verifh"
	"github.com/kstenerud/go-concise-encoding/internal/verifrt"
	"github.com/kstenerud/go-concise-encoding/rules"
)

// roundTrip sends a document through rules -> CBE encoder, decodes the bytes
// with the CBE decoder + rules, and returns what was sent (as forwarded by the
// first validator) and what came out.
func roundTrip(send func(r events.DataEventReceiver)) (sent, got *verifh.Rec, doc []byte, err error) {
	cfg := configuration.New()
	sink := &verifh.Sink{}
	enc := cbe.NewEncoder(cfg)
	enc.PrepareToEncode(sink)
	sent = &verifh.Rec{}
	// first pass: record what the validator forwards
	r1 := rules.NewRules(sent, cfg)
	if verifh.Try(func() { send(r1) }) {
		verifrt.Assume(false) // template is not rules-valid for these payloads
	}
	// second pass: encode
	r2 := rules.NewRules(enc, cfg)
	send(r2)
	doc = sink.Buf
	got = &verifh.Rec{}
	dec := cbe.NewDecoder(cfg)
	err = dec.DecodeDocument(doc, rules.NewRules(got, cfg))
	return
}

// wrap places value() at a chosen position of a document.
func wrap(pos int, value func(r events.DataEventReceiver)) func(r events.DataEventReceiver) {
	return func(r events.DataEventReceiver) {
		r.OnBeginDocument()
		r.OnVersion(0)
		switch pos {
		case 0:
			value(r)
		case 1:
			r.OnList()
			value(r)
			r.OnEndContainer()
		case 2:
			r.OnMap()
			value(r)
			r.OnNull()
			r.OnEndContainer()
		case 3:
			r.OnMap()
			r.OnTrue()
			value(r)
			r.OnEndContainer()
		}
		r.OnEndDocument()
	}
}

// valueIndex is the index of the value event in the recorded stream for wrap().
func valueIndex(pos int) int {
	switch pos {
	case 0:
		return 2
	case 1, 2:
		return 3
	}
	return 4
}

func sameLen(sent, got *verifh.Rec) {
	verifrt.Assert(len(sent.Evs) == len(got.Evs), "same number of events")
}

func Verif_C01_Ints() {
	form := verifrt.Choice("form", 3)
	pos := verifrt.Choice("pos", 4)
	v := verifrt.U64("v")
	if form == 1 {
		verifrt.Assume(v != 0 || pos != 2) // NegativeInt(0) is -0.0: not keyable
	}
	sent, got, _, err := roundTrip(wrap(pos, func(r events.DataEventReceiver) {
		switch form {
		case 0:
			r.OnPositiveInt(v)
		case 1:
			r.OnNegativeInt(v)
		case 2:
			r.OnInt(int64(v))
		}
	}))
	verifrt.Reach("decoded")
	verifrt.Assert(err == nil, "encoder output decodes")
	sameLen(sent, got)
	k := valueIndex(pos)
	s, g := sent.Evs[k], got.Evs[k]
	if form == 1 && !verifrt.Symbolic() && v == 0 {
		return
	}
	okS, negS, magS := verifh.IntValue(s)
	okG, negG, magG := verifh.IntValue(g)
	// -0 (NegativeInt 0) may legitimately come back as a float -0
	if form == 1 {
		if v == 0 {
			verifrt.Reach("negzero")
			verifrt.Assert(g.K == verifh.KFloat && g.U == 1<<63 || g.K == verifh.KNegInt && g.U == 0, "negative zero survives")
			return
		}
	}
	verifrt.Assert(okS && okG, "integer comes back as an integer event")
	verifrt.Assert(verifrt.And(magS == magG, verifrt.Or(negS == negG, magS == 0)), "integer value preserved")
}

func Verif_C01_Float() {
	pos := verifrt.Choice("pos", 3) // floats are not keyable: top, list, map value
	if pos == 2 {
		pos = 3
	}
	bits := verifrt.U64("bits")
	f := math.Float64frombits(bits)
	sent, got, _, err := roundTrip(wrap(pos, func(r events.DataEventReceiver) { r.OnFloat(f) }))
	verifrt.Reach("decoded")
	verifrt.Assert(err == nil, "encoder output decodes")
	sameLen(sent, got)
	k := valueIndex(pos)
	s, g := sent.Evs[k], got.Evs[k]
	if s.K == verifh.KNan {
		verifrt.Reach("nan")
		verifrt.Assert(g.K == verifh.KNan && g.B == s.B, "NaN keeps its quiet/signalling kind")
		return
	}
	if bits<<1 == 0 || bits<<1 == 0x7ff0000000000000<<1 {
		verifrt.Reach("special")
		verifrt.Assert(verifh.FloatSpecialEq(bits, g), "zero/infinity keeps value and sign")
		return
	}
	verifrt.Assert(g.K == verifh.KFloat && g.U == bits, "binary float is bit-exact")
}
