//verif:package github.com/kstenerud/go-concise-encoding/internal/verifh/c04
//verif:config cap=300
//verif:bounds typed round trip through the real iterator Session, rules and builder Session (events in between; entry ThroughCBE adds the real CBE encoder and decoder): signed/unsigned integers of every width (all values), float32/float64 (all bit patterns but NaN), bool, strings of 0..2 symbolic ASCII bytes, []byte / [2]byte, slices and arrays of uint16/int32/uint64/float32 with 0..2 symbolic elements, []string, []int, []uint, []bool of 0..9 elements, map[string]uint8 and map[int16]string with 0..2 entries, pointers to scalars (nil and non-nil), *[]string, nested and embedded structs, interface{} fields holding an integer / string / nil, slices of structs, structs with two types.Media values and a long string, adjacent byte slices
//verif:assume reflect, sync.Map and WaitGroup are the engine's emulation / sequential model; equality is checked field by field by the harness (no reflect.DeepEqual); big numbers, times, URLs, custom types and recursion support (C20) are not in this check
package c04

import (
	"math"

	"github.com/kstenerud/go-concise-encoding/builder"
	"github.com/kstenerud/go-concise-encoding/cbe"
	"github.com/kstenerud/go-concise-encoding/configuration"
	"github.com/kstenerud/go-concise-encoding/internal/verifh"
	"github.com/kstenerud/go-concise-encoding/internal/verifrt"
	"github.com/kstenerud/go-concise-encoding/iterator"
	"github.com/kstenerud/go-concise-encoding/rules"
	"github.com/kstenerud/go-concise-encoding/types"
)

// roundTrip marshals v into a validated event stream and unmarshals the stream
// into a value of template's type.
func roundTrip(label string, v, template interface{}, throughCBE bool) interface{} {
	cfg := configuration.New()
	rec := &verifh.Rec{}
	failed := verifh.Try(func() { iterator.NewSession(nil, cfg).NewIterator(rules.NewRules(rec, cfg)).Iterate(v) })
	verifrt.Reach("marshaled")
	verifrt.Assert(!failed, label+": marshaling succeeds and its events are rules-valid")
	if failed {
		return nil
	}
	b := builder.NewSession(nil, cfg).NewBuilderFor(template)
	if throughCBE {
		sink := &verifh.Sink{}
		enc := cbe.NewEncoder(cfg)
		enc.PrepareToEncode(sink)
		verifh.Play(rec.Evs, enc)
		err := cbe.NewDecoder(cfg).DecodeDocument(sink.Buf, rules.NewRules(b, cfg))
		verifrt.Reach("unmarshaled")
		verifrt.Assert(err == nil, label+": the CBE document decodes and unmarshals into the same type")
		if err != nil {
			return nil
		}
	} else {
		failed = verifh.Try(func() { verifh.Play(rec.Evs, b) })
		verifrt.Reach("unmarshaled")
		verifrt.Assert(!failed, label+": the marshaled value unmarshals into the same type without error")
		if failed {
			return nil
		}
	}
	return b.GetBuiltObject()
}

func ascii(tag string, n int) string {
	b := verifrt.Bytes(tag, n)
	for _, c := range b {
		verifrt.Assume(c >= 0x20 && c < 0x7f)
	}
	return string(b)
}

func f64(tag string) float64 {
	bits := verifrt.U64(tag)
	verifrt.Assume(!(bits&0x7ff0000000000000 == 0x7ff0000000000000 && bits&0xfffffffffffff != 0))
	return math.Float64frombits(bits)
}

func f32(tag string) float32 {
	bits := verifrt.U32(tag)
	verifrt.Assume(!(bits&0x7f800000 == 0x7f800000 && bits&0x7fffff != 0))
	return math.Float32frombits(bits)
}

type Scalars struct {
	I8  int8
	I16 int16
	I32 int32
	I64 int64
	I   int
	U8  uint8
	U16 uint16
	U32 uint32
	U64 uint64
	U   uint
	B   bool
	S   string
}

type Floats struct {
	F32 float32
	F64 float64
}

type Inner struct {
	A uint16
	S string
}

type Nested struct {
	In  Inner
	P   *Inner
	Any interface{}
	Inner2
}

type Inner2 struct {
	Z int8
}

const numCases = 24

func typedCase(which int, throughCBE bool) {
	same := "the unmarshaled value equals the marshaled one"
	switch which {
	case 0:
		v := Scalars{int8(verifrt.I8("i8")), int16(verifrt.I16("i16")), int32(verifrt.I32("i32")), int64(verifrt.I64("i64")), int(verifrt.I64("i")),
			verifrt.U8("u8"), verifrt.U16("u16"), verifrt.U32("u32"), verifrt.U64("u64"), uint(verifrt.U64("u")), verifrt.Bool("b"), ascii("s", verifrt.Choice("slen", 3))}
		got, ok := roundTrip("struct of scalars", v, Scalars{}, throughCBE).(*Scalars)
		verifrt.Assert(ok && got != nil, "struct of scalars: type")
		verifrt.Assert(verifrt.And(got.I8 == v.I8, got.I16 == v.I16, got.I32 == v.I32, got.I64 == v.I64, got.I == v.I), "struct of scalars: "+same+" (signed)")
		verifrt.Assert(verifrt.And(got.U8 == v.U8, got.U16 == v.U16, got.U32 == v.U32, got.U64 == v.U64, got.U == v.U), "struct of scalars: "+same+" (unsigned)")
		verifrt.Assert(verifrt.And(got.B == v.B, got.S == v.S), "struct of scalars: "+same+" (bool, string)")
	case 1:
		v := Floats{f32("f32"), f64("f64")}
		got, ok := roundTrip("struct of floats", v, Floats{}, throughCBE).(*Floats)
		verifrt.Assert(ok && got != nil, "struct of floats: type")
		verifrt.Assert(math.Float32bits(got.F32) == math.Float32bits(v.F32), "struct of floats: "+same+" (float32)")
		verifrt.Assert(math.Float64bits(got.F64) == math.Float64bits(v.F64), "struct of floats: "+same+" (float64)")
	case 2:
		v := verifrt.Bytes("bytes", verifrt.Choice("n", 3))
		got, ok := roundTrip("[]byte", v, []byte{}, throughCBE).([]byte)
		verifrt.Assert(ok, "[]byte: type")
		verifrt.Assert(len(got) == len(v) && verifrt.BytesEq(got, v), "[]byte: "+same)
	case 3:
		v := [2]byte{verifrt.U8("a"), verifrt.U8("b")}
		got, ok := roundTrip("[2]byte", v, [2]byte{}, throughCBE).(*[2]byte)
		verifrt.Assert(ok && got != nil, "[2]byte: type")
		verifrt.Assert(verifrt.And(got[0] == v[0], got[1] == v[1]), "[2]byte: "+same)
	case 4:
		n := verifrt.Choice("n", 3)
		v := make([]uint16, n)
		for i := range v {
			v[i] = verifrt.U16("e")
		}
		got, ok := roundTrip("[]uint16", v, []uint16{}, throughCBE).([]uint16)
		verifrt.Assert(ok && len(got) == n, "[]uint16: type and length")
		for i := range v {
			verifrt.Assert(got[i] == v[i], "[]uint16: "+same)
		}
	case 5:
		n := verifrt.Choice("n", 3)
		v := make([]int32, n)
		for i := range v {
			v[i] = int32(verifrt.I32("e"))
		}
		got, ok := roundTrip("[]int32", v, []int32{}, throughCBE).([]int32)
		verifrt.Assert(ok && len(got) == n, "[]int32: type and length")
		for i := range v {
			verifrt.Assert(got[i] == v[i], "[]int32: "+same)
		}
	case 6:
		v := [2]uint64{verifrt.U64("a"), verifrt.U64("b")}
		got, ok := roundTrip("[2]uint64", v, [2]uint64{}, throughCBE).(*[2]uint64)
		verifrt.Assert(ok && got != nil, "[2]uint64: type")
		verifrt.Assert(verifrt.And(got[0] == v[0], got[1] == v[1]), "[2]uint64: "+same)
	case 7:
		n := verifrt.Choice("n", 3)
		v := make([]float32, n)
		for i := range v {
			v[i] = f32("e")
		}
		got, ok := roundTrip("[]float32", v, []float32{}, throughCBE).([]float32)
		verifrt.Assert(ok && len(got) == n, "[]float32: type and length")
		for i := range v {
			verifrt.Assert(math.Float32bits(got[i]) == math.Float32bits(v[i]), "[]float32: "+same)
		}
	case 8:
		n := verifrt.Choice("n", 3)
		v := make([]string, n)
		for i := range v {
			v[i] = ascii("s", verifrt.Choice("slen", 2))
		}
		got, ok := roundTrip("[]string", v, []string{}, throughCBE).([]string)
		verifrt.Assert(ok && len(got) == n, "[]string: type and length")
		for i := range v {
			verifrt.Assert(got[i] == v[i], "[]string: "+same)
		}
	case 9:
		n := verifrt.Choice("n", 3)
		v := make([]int, n)
		for i := range v {
			v[i] = int(verifrt.I64("e"))
		}
		got, ok := roundTrip("[]int", v, []int{}, throughCBE).([]int)
		verifrt.Assert(ok && len(got) == n, "[]int: type and length")
		for i := range v {
			verifrt.Assert(got[i] == v[i], "[]int: "+same)
		}
	case 10:
		n := verifrt.Choice("n", 3)
		v := make([]uint, n)
		for i := range v {
			v[i] = uint(verifrt.U64("e"))
		}
		got, ok := roundTrip("[]uint", v, []uint{}, throughCBE).([]uint)
		verifrt.Assert(ok && len(got) == n, "[]uint: type and length")
		for i := range v {
			verifrt.Assert(got[i] == v[i], "[]uint: "+same)
		}
	case 11:
		n := verifrt.Choice("n", 10)
		v := make([]bool, n)
		for i := range v {
			v[i] = verifrt.Bool("e")
		}
		got, ok := roundTrip("[]bool", v, []bool{}, throughCBE).([]bool)
		verifrt.Assert(ok && len(got) == n, "[]bool: type and length")
		for i := range v {
			verifrt.Assert(got[i] == v[i], "[]bool: "+same)
		}
	case 12:
		n := verifrt.Choice("n", 3)
		v := map[string]uint8{}
		keys := []string{"a", "bb"}
		for i := 0; i < n; i++ {
			v[keys[i]] = verifrt.U8("e")
		}
		got, ok := roundTrip("map[string]uint8", v, map[string]uint8{}, throughCBE).(map[string]uint8)
		verifrt.Assert(ok && len(got) == n, "map[string]uint8: type and length")
		for i := 0; i < n; i++ {
			verifrt.Assert(got[keys[i]] == v[keys[i]], "map[string]uint8: "+same)
		}
	case 13:
		k1, k2 := int16(verifrt.I16("k1")), int16(verifrt.I16("k2"))
		verifrt.Assume(k1 != k2)
		v := map[int16]string{k1: "x", k2: ascii("s", 1)}
		got, ok := roundTrip("map[int16]string", v, map[int16]string{}, throughCBE).(map[int16]string)
		verifrt.Assert(ok && len(got) == 2, "map[int16]string: type and length")
		verifrt.Assert(got[k1] == v[k1] && got[k2] == v[k2], "map[int16]string: "+same)
	case 14:
		x := verifrt.U32("x")
		var v *uint32
		if verifrt.Choice("nil", 2) == 0 {
			v = &x
		}
		type holder struct{ P *uint32 }
		got, ok := roundTrip("*uint32 field", holder{v}, holder{}, throughCBE).(*holder)
		verifrt.Assert(ok && got != nil, "*uint32 field: type")
		if v == nil {
			verifrt.Assert(got.P == nil, "nil pointer stays nil")
		} else {
			verifrt.Assert(got.P != nil && *got.P == x, "*uint32 field: "+same)
		}
	case 15:
		s := []string{ascii("s", 1), "yy"}
		v := &s
		got, ok := roundTrip("*[]string", v, &[]string{}, throughCBE).(*[]string)
		verifrt.Assert(ok && got != nil && len(*got) == 2, "*[]string: type and length")
		verifrt.Assert((*got)[0] == s[0] && (*got)[1] == s[1], "*[]string: "+same)
	case 16:
		v := Nested{In: Inner{verifrt.U16("a"), ascii("s", 1)}, P: &Inner{verifrt.U16("pa"), "p"}, Any: nil, Inner2: Inner2{int8(verifrt.I8("z"))}}
		got, ok := roundTrip("nested struct", v, Nested{}, throughCBE).(*Nested)
		verifrt.Assert(ok && got != nil, "nested struct: type")
		verifrt.Assert(got.In.A == v.In.A && got.In.S == v.In.S && got.Z == v.Z, "nested struct: "+same+" (nested, embedded)")
		verifrt.Assert(got.P != nil && got.P.A == v.P.A && got.P.S == "p", "nested struct: "+same+" (pointer to struct)")
		verifrt.Assert(got.Any == nil, "nested struct: "+same+" (nil interface)")
	case 17:
		x := verifrt.U64("x")
		v := Nested{Any: x}
		got, ok := roundTrip("interface{} holding uint64", v, Nested{}, throughCBE).(*Nested)
		verifrt.Assert(ok && got != nil, "interface{} holding uint64: type")
		switch a := got.Any.(type) {
		case uint64:
			verifrt.Assert(a == x, "interface{} holding uint64: "+same+" (interface holding an unsigned integer)")
		case int64:
			verifrt.Assert(a >= 0 && uint64(a) == x, "interface{} holding uint64: "+same+" (interface holding an unsigned integer)")
		case int:
			verifrt.Assert(a >= 0 && uint64(a) == x, "interface{} holding uint64: "+same+" (interface holding an unsigned integer)")
		default:
			verifrt.Assert(false, "interface{} holding uint64: "+same+" (interface holding an unsigned integer)")
		}
	case 18:
		s := ascii("s", 2)
		v := Nested{Any: s}
		got, ok := roundTrip("interface{} holding string", v, Nested{}, throughCBE).(*Nested)
		verifrt.Assert(ok && got != nil, "interface{} holding string: type")
		gs, isS := got.Any.(string)
		verifrt.Assert(isS && gs == s, "interface{} holding string: "+same+" (interface holding a string)")
	case 19:
		n := verifrt.Choice("n", 3)
		v := make([]Inner, n)
		for i := range v {
			v[i] = Inner{verifrt.U16("a"), ascii("s", 1)}
		}
		got, ok := roundTrip("[]struct", v, []Inner{}, throughCBE).([]Inner)
		verifrt.Assert(ok && len(got) == n, "[]struct: type and length")
		for i := range v {
			verifrt.Assert(got[i].A == v[i].A && got[i].S == v[i].S, "[]struct: "+same)
		}
	case 20:
		v := int64(verifrt.I64("top"))
		got, ok := roundTrip("int64", v, int64(0), throughCBE).(int64)
		verifrt.Assert(ok && got == v, "int64: "+same+" (top-level int64)")
	case 22:
		// two media values and a long string: array-like values after the first
		// media reuse the decoder's buffers
		type holder struct {
			Icon, Preview types.Media
			Comment       string
		}
		v := holder{
			Icon:    types.Media{MediaType: "image/x", Data: verifrt.Bytes("icon", 3)},
			Preview: types.Media{MediaType: "image/y", Data: verifrt.Bytes("preview", 2)},
			Comment: "a comment longer than fifteen bytes" + ascii("c", 1),
		}
		got, ok := roundTrip("struct with media", v, holder{}, throughCBE).(*holder)
		verifrt.Assert(ok && got != nil, "struct with media: type")
		verifrt.Assert(got.Icon.MediaType == "image/x" && got.Preview.MediaType == "image/y" && got.Comment == v.Comment, "struct with media: "+same+" (media types, string)")
		verifrt.Assert(len(got.Icon.Data) == 3 && len(got.Preview.Data) == 2, "struct with media: payload lengths")
		verifrt.Assert(verifrt.BytesEq(got.Icon.Data, v.Icon.Data) && verifrt.BytesEq(got.Preview.Data, v.Preview.Data), "struct with media: "+same+" (media payloads)")
	case 23:
		// byte slices next to each other: none may alias a decoder buffer
		type holder struct {
			A, B []byte
			C    [2][]byte
		}
		v := holder{A: verifrt.Bytes("a", 2), B: verifrt.Bytes("b", 3), C: [2][]byte{verifrt.Bytes("c0", 1), verifrt.Bytes("c1", 2)}}
		got, ok := roundTrip("struct of byte slices", v, holder{}, throughCBE).(*holder)
		verifrt.Assert(ok && got != nil, "struct of byte slices: type")
		verifrt.Assert(len(got.A) == 2 && len(got.B) == 3 && len(got.C[0]) == 1 && len(got.C[1]) == 2, "struct of byte slices: lengths")
		verifrt.Assert(verifrt.BytesEq(got.A, v.A) && verifrt.BytesEq(got.B, v.B) && verifrt.BytesEq(got.C[0], v.C[0]) && verifrt.BytesEq(got.C[1], v.C[1]), "struct of byte slices: "+same)
	case 21:
		v := ascii("top", verifrt.Choice("len", 3))
		got, ok := roundTrip("string", v, "", throughCBE).(string)
		verifrt.Assert(ok && got == v, "string: "+same+" (top-level string)")
	}
}

func Verif_C04_TypedRoundTrip() {
	which := verifrt.Choice("case", numCases)
	verifrt.Known("KF-C04-int-uint-slices", which == 9 || which == 10)
	verifrt.Known("KF-C04-bool-slices", which == 11)
	verifrt.Known("KF-C04-pointer-to-container", which == 15)
	typedCase(which, false)
}

// The same values with the real CBE encoder and decoder in between. Every
// symbolic integer multiplies the paths by the number of CBE integer encodings,
// so the cases with many integers (covered by C01 at the codec level) are left
// to the entry above.
func Verif_C04_TypedRoundTripThroughCBE() {
	cases := []int{2, 3, 4, 7, 8, 12, 14, 15, 16, 18, 19, 21, 22, 23}
	which := cases[verifrt.Choice("case", len(cases))]
	verifrt.Known("KF-C04-pointer-to-container", which == 15)
	typedCase(which, true)
}
