//verif:package github.com/kstenerud/go-concise-encoding/builder
//verif:bounds integer round trip through the real event receiver and numeric setters: every int64 / uint64 value, as the events a decoder produces for it (PositiveInt(v) / NegativeInt(-v) / Int(v)), into a destination of the same Go type (int64, uint64) and of the narrower kinds when the value fits
package builder

import (
	"reflect"

	"github.com/kstenerud/go-concise-encoding/internal/verifh"
	"github.com/kstenerud/go-concise-encoding/internal/verifrt"
)

// c04Store pushes what the sink received from the event receiver into dst the
// way the int/uint builders do.
func c04Store(s *verifSink, dst reflect.Value, signedDst bool) {
	switch s.kind {
	case "int":
		if signedDst {
			setIntFromInt(s.i, dst)
		} else {
			setUintFromInt(s.i, dst)
		}
	case "uint":
		if signedDst {
			setIntFromUint(s.u, dst)
		} else {
			setUintFromUint(s.u, dst)
		}
	case "bigint":
		if signedDst {
			setIntFromBigInt(s.bi, dst)
		} else {
			setUintFromBigInt(s.bi, dst)
		}
	default:
		panic("not an integer")
	}
}

// A Go signed integer that was marshalled arrives as PositiveInt(v) or
// NegativeInt(-v) (binary and text decoders) or Int(v) (direct event
// producers); the destination of the same type must accept it and hold v.
func Verif_C04_SignedIntegerArrives() {
	v := verifrt.I64("v")
	width := []int{8, 16, 32, 64}[verifrt.Choice("dstBits", 4)]
	sh := uint(64 - width)
	verifrt.Assume((v<<sh)>>sh == v) // v fits the destination type
	sink := &verifSink{}
	r := verifReceiver(sink)
	switch verifrt.Choice("event", 2) {
	case 0:
		if v >= 0 {
			r.OnPositiveInt(uint64(v))
		} else {
			r.OnNegativeInt(uint64(-v))
		}
	case 1:
		r.OnInt(v)
	}
	var d8 int8
	var d16 int16
	var d32 int32
	var d64 int64
	var dst reflect.Value
	switch width {
	case 8:
		dst = reflect.ValueOf(&d8).Elem()
	case 16:
		dst = reflect.ValueOf(&d16).Elem()
	case 32:
		dst = reflect.ValueOf(&d32).Elem()
	default:
		dst = reflect.ValueOf(&d64).Elem()
	}
	rejected := verifh.Try(func() { c04Store(sink, dst, true) })
	verifrt.Reach("delivered")
	verifrt.Assert(sink.calls == 1, "one value delivered to the builder")
	verifrt.Assert(!rejected, "a value of the destination's own type is accepted")
	got := int64(d8) + int64(d16) + int64(d32) + d64
	verifrt.Assert(got == v, "the signed destination holds the value that was marshalled")
}

func Verif_C04_UnsignedIntegerArrives() {
	v := verifrt.U64("v")
	width := []int{8, 16, 32, 64}[verifrt.Choice("dstBits", 4)]
	sh := uint(64 - width)
	verifrt.Assume((v<<sh)>>sh == v)
	sink := &verifSink{}
	r := verifReceiver(sink)
	switch verifrt.Choice("event", 2) {
	case 0:
		r.OnPositiveInt(v)
	case 1:
		verifrt.Assume(int64(v) >= 0)
		r.OnInt(int64(v))
	}
	var d8 uint8
	var d16 uint16
	var d32 uint32
	var d64 uint64
	var dst reflect.Value
	switch width {
	case 8:
		dst = reflect.ValueOf(&d8).Elem()
	case 16:
		dst = reflect.ValueOf(&d16).Elem()
	case 32:
		dst = reflect.ValueOf(&d32).Elem()
	default:
		dst = reflect.ValueOf(&d64).Elem()
	}
	rejected := verifh.Try(func() { c04Store(sink, dst, false) })
	verifrt.Reach("delivered")
	verifrt.Assert(sink.calls == 1, "one value delivered to the builder")
	verifrt.Assert(!rejected, "a value of the destination's own type is accepted")
	got := uint64(d8) + uint64(d16) + uint64(d32) + d64
	verifrt.Assert(got == v, "the unsigned destination holds the value that was marshalled")
}
