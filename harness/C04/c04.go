//verif:package github.com/kstenerud/go-concise-encoding/builder
//verif:bounds chunked arrays through the real BuilderEventReceiver/Context reassembly: array types uint8, uint16, uint32, uint64, bit, string, media, custom binary; 1..3 chunks with symbolic element counts (<= 3 elements each, bit arrays <= 17 bits), each chunk's bytes delivered in one or two data events; content bytes symbolic
//verif:assume the builder on top of the stack is a harness sink that records what BuildFromArray/BuildFromMedia/... receive; everything type-directed in C04 (reflection-built builders) is outside reach
package builder

import (
	"github.com/kstenerud/go-concise-encoding/ce/events"
	"github.com/kstenerud/go-concise-encoding/internal/verifrt"
)

func elemBits(at events.ArrayType) int {
	switch at {
	case events.ArrayTypeBit:
		return 1
	case events.ArrayTypeUint16:
		return 16
	case events.ArrayTypeUint32:
		return 32
	case events.ArrayTypeUint64:
		return 64
	}
	return 8
}

func byteCount(bits int, elems int) int {
	n := elems * bits
	return (n + 7) / 8
}

// Chunked delivery of an array must hand the builder exactly one array with
// the concatenated bytes and the total element count.
func Verif_C04_ChunkedArrayReassembly() {
	kinds := []events.ArrayType{events.ArrayTypeUint8, events.ArrayTypeUint16, events.ArrayTypeUint32, events.ArrayTypeUint64, events.ArrayTypeBit, events.ArrayTypeString}
	at := kinds[verifrt.Choice("type", len(kinds))]
	bits := elemBits(at)
	nChunks := verifrt.Choice("chunks", 3) + 1
	sink := &verifSink{}
	r := verifReceiver(sink)
	r.OnArrayBegin(at)
	var all []byte
	total := 0
	for c := 0; c < nChunks; c++ {
		var elems int
		if at == events.ArrayTypeBit {
			elems = []int{0, 3, 8, 9, 16, 17}[verifrt.Choice("bits", 6)]
			if c+1 < nChunks {
				verifrt.Assume(elems%8 == 0) // only the last chunk of a bit array may hold a partial byte
			}
		} else {
			elems = verifrt.Choice("elems", 4)
		}
		last := c+1 == nChunks
		nb := byteCount(bits, elems)
		data := verifrt.Bytes("d", nb)
		verifrt.Assert(sink.calls == 0, "nothing is built before the final chunk is complete")
		r.OnArrayChunk(uint64(elems), !last)
		if nb > 0 {
			split := verifrt.Choice("split", nb)
			if split > 0 {
				r.OnArrayData(data[:split])
				verifrt.Assert(sink.calls == 0, "nothing is built in the middle of a chunk")
				r.OnArrayData(data[split:])
			} else {
				r.OnArrayData(data)
			}
		}
		all = append(all, data...)
		total += elems
	}
	verifrt.Reach("delivered")
	verifrt.Known("KF-C04-chunk-count-in-bytes", verifrt.And(bits != 8, sink.calls != 1))
	verifrt.Assert(sink.calls == 1, "the builder receives exactly one array when the final chunk is complete")
	if sink.calls != 1 {
		return
	}
	if at == events.ArrayTypeString {
		verifrt.Assert(sink.kind == "stringarray" || sink.kind == "array", "string delivered as an array")
		if sink.kind == "stringarray" {
			verifrt.Assert(verifrt.BytesEq([]byte(sink.str), all), "string bytes are the concatenation of all chunks")
			return
		}
	}
	verifrt.Assert(sink.kind == "array" && sink.arrType == at, "array of the declared type")
	verifrt.Assert(verifrt.BytesEq(sink.arr, all), "array bytes are the concatenation of all chunks")
	_ = total // the Builder interface carries no element count (a bit array's length is lost by construction; not observable here)
}

func Verif_C04_ChunkedMediaAndCustom() {
	which := verifrt.Choice("which", 2)
	nChunks := verifrt.Choice("chunks", 2) + 1
	sink := &verifSink{}
	r := verifReceiver(sink)
	if which == 0 {
		r.OnMediaBegin("a/b")
	} else {
		r.OnCustomBegin(events.ArrayTypeCustomBinary, 7)
	}
	var all []byte
	for c := 0; c < nChunks; c++ {
		n := verifrt.Choice("len", 3)
		data := verifrt.Bytes("d", n)
		r.OnArrayChunk(uint64(n), c+1 < nChunks)
		if n > 0 {
			r.OnArrayData(data)
		}
		all = append(all, data...)
	}
	verifrt.Reach("delivered")
	verifrt.Assert(sink.calls == 1, "exactly one value built")
	if which == 0 {
		verifrt.Assert(sink.kind == "media" && sink.str == "a/b", "media with its media type")
	} else {
		verifrt.Assert(sink.kind == "custombinary", "custom binary")
	}
	verifrt.Assert(verifrt.BytesEq(sink.arr, all), "payload is the concatenation of all chunks")
}
