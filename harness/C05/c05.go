//verif:package github.com/kstenerud/go-concise-encoding/iterator
//verif:config paths=600000
//verif:bounds leaf iterators on reflect.ValueOf(x): []bool of 0..12 elements (quick) / 0..14 (thorough), all values, []uint16/[]uint32/[]uint64/[]int16/[]int32/[]int64/[]float32/[]float64 of 0..3 elements with every bit symbolic; types.Edge and types.Node with integer / nil components
//verif:assume reflect.Value is the engine's small emulation (ValueOf, Len, Index, Bool, Uint, Int, Float, Field, Elem, Kind, Type, IsNil, IsValid); Context.GetIteratorForType is supplied by the harness (integers only); struct/map/list/pointer iterators, records, omit rules and recursion support are reflection-built and outside reach
package iterator

import (
	"math"
	"reflect"

	"github.com/kstenerud/go-concise-encoding/ce/events"
	"github.com/kstenerud/go-concise-encoding/configuration"
	"github.com/kstenerud/go-concise-encoding/internal/verifh"
	"github.com/kstenerud/go-concise-encoding/internal/verifrt"
	"github.com/kstenerud/go-concise-encoding/rules"
	"github.com/kstenerud/go-concise-encoding/types"
)

// harnessContext validates the emitted events with the real rules and records them.
func harnessContext() (*Context, *verifh.Rec, *rules.RulesEventReceiver) {
	rec := &verifh.Rec{}
	r := rules.NewRules(rec, configuration.New())
	ctx := &Context{
		Configuration: configuration.New(),
		EventReceiver: r,
		GetIteratorForType: func(t reflect.Type) IteratorFunction {
			return func(c *Context, v reflect.Value) { c.EventReceiver.OnPositiveInt(v.Uint()) }
		},
		TryAddLocalReference: func(reflect.Value) bool { return false },
	}
	return ctx, rec, r
}

func Verif_C05_BoolSlice() {
	maxN := 12 // every element is a branch in the code under test: 2^n paths per length
	if verifrt.Thorough() {
		maxN = 14
	}
	n := verifrt.Choice("len", maxN+1)
	s := make([]bool, n)
	for i := range s {
		s[i] = verifrt.Bool("b")
	}
	ctx, rec, r := harnessContext()
	r.OnBeginDocument()
	r.OnVersion(0)
	rejected := verifh.Try(func() {
		iterateSliceOrArrayBool(ctx, reflect.ValueOf(s))
		r.OnEndDocument()
	})
	verifrt.Reach("iterated")
	verifrt.Assert(!rejected, "the events of a bool slice are accepted by the validator")
	g := rec.Evs[2]
	verifrt.Assert(g.K == verifh.KArray && g.U == uint64(events.ArrayTypeBit) && g.U2 == uint64(n), "one bit array with the slice's element count")
	verifrt.Assert(len(g.S) == (n+7)/8, "packed byte count")
	verifrt.Known("KF-C05-bool-index", n > 8)
	ok := true
	for i := 0; i < n; i++ {
		bit := g.S[i/8]&(1<<uint(i%8)) != 0
		ok = verifrt.And(ok, bit == s[i])
	}
	verifrt.Assert(ok, "bit i of the packed bytes is element i")
	// unused high bits of the last byte are zero
	if n%8 != 0 {
		verifrt.Assert(g.S[n/8]>>(uint(n%8)) == 0, "padding bits are zero")
	}
}

func leBytes(vals []uint64, w int) []byte {
	out := make([]byte, 0, len(vals)*w)
	for _, v := range vals {
		for j := 0; j < w; j++ {
			out = append(out, byte(v>>(8*uint(j))))
		}
	}
	return out
}

func Verif_C05_NumericSlices() {
	kind := verifrt.Choice("kind", 8)
	n := verifrt.Choice("len", 4)
	vals := make([]uint64, n)
	for i := range vals {
		vals[i] = verifrt.U64("e")
	}
	ctx, rec, r := harnessContext()
	r.OnBeginDocument()
	r.OnVersion(0)
	var at events.ArrayType
	var w int
	rejected := verifh.Try(func() {
		switch kind {
		case 0:
			s := make([]uint16, n)
			for i := range s {
				s[i] = uint16(vals[i])
				vals[i] &= 0xffff
			}
			at, w = events.ArrayTypeUint16, 2
			iterateSliceOrArrayUint16(ctx, reflect.ValueOf(s))
		case 1:
			s := make([]uint32, n)
			for i := range s {
				s[i] = uint32(vals[i])
				vals[i] &= 0xffffffff
			}
			at, w = events.ArrayTypeUint32, 4
			iterateSliceOrArrayUint32(ctx, reflect.ValueOf(s))
		case 2:
			s := make([]uint64, n)
			copy(s, vals)
			at, w = events.ArrayTypeUint64, 8
			iterateSliceOrArrayUint64(ctx, reflect.ValueOf(s))
		case 3:
			s := make([]int16, n)
			for i := range s {
				s[i] = int16(vals[i])
				vals[i] &= 0xffff
			}
			at, w = events.ArrayTypeInt16, 2
			iterateSliceOrArrayInt16(ctx, reflect.ValueOf(s))
		case 4:
			s := make([]int32, n)
			for i := range s {
				s[i] = int32(vals[i])
				vals[i] &= 0xffffffff
			}
			at, w = events.ArrayTypeInt32, 4
			iterateSliceOrArrayInt32(ctx, reflect.ValueOf(s))
		case 5:
			s := make([]int64, n)
			for i := range s {
				s[i] = int64(vals[i])
			}
			at, w = events.ArrayTypeInt64, 8
			iterateSliceOrArrayInt64(ctx, reflect.ValueOf(s))
		case 6:
			s := make([]float32, n)
			for i := range s {
				s[i] = math.Float32frombits(uint32(vals[i]))
				vals[i] &= 0xffffffff
				// reflect.Value.Float widens to float64 and the iterator narrows again: a signalling NaN payload is quieted by the CPU, not by the library
				verifrt.Assume(!(vals[i]&0x7f800000 == 0x7f800000 && vals[i]&0x007fffff != 0))
			}
			at, w = events.ArrayTypeFloat32, 4
			iterateSliceOrArrayFloat32(ctx, reflect.ValueOf(s))
		case 7:
			s := make([]float64, n)
			for i := range s {
				s[i] = math.Float64frombits(vals[i])
			}
			at, w = events.ArrayTypeFloat64, 8
			iterateSliceOrArrayFloat64(ctx, reflect.ValueOf(s))
		}
		r.OnEndDocument()
	})
	verifrt.Reach("iterated")
	verifrt.Assert(!rejected, "the events of a numeric slice are accepted by the validator")
	g := rec.Evs[2]
	verifrt.Assert(g.K == verifh.KArray && g.U == uint64(at) && g.U2 == uint64(n), "one typed array with the slice's element count")
	verifrt.Assert(verifrt.BytesEq(g.S, leBytes(vals, w)), "array bytes are the elements, little-endian")
}

func Verif_C05_EdgeAndNode() {
	which := verifrt.Choice("which", 2)
	a, b, c := verifrt.U64("a"), verifrt.U64("b"), verifrt.U64("c")
	descNil := verifrt.Choice("nilDescription", 2) == 1
	ctx, rec, r := harnessContext()
	r.OnBeginDocument()
	r.OnVersion(0)
	rejected := verifh.Try(func() {
		if which == 0 {
			e := types.Edge{Source: a, Description: b, Destination: c}
			if descNil {
				e.Description = nil
			}
			iterateEdge(ctx, reflect.ValueOf(e))
		} else {
			nd := types.Node{Value: a, Children: []interface{}{b, c}}
			iterateNode(ctx, reflect.ValueOf(nd))
		}
		r.OnEndDocument()
	})
	verifrt.Reach("iterated")
	verifrt.Known("KF-C05-edge-no-end", which == 0)
	verifrt.Assert(!rejected, "the events of an edge / node form a document the validator accepts")
	if which == 1 {
		e := rec.Evs[2:]
		verifrt.Assert(e[0].K == verifh.KNode && e[1].K == verifh.KPosInt && e[1].U == a && e[2].U == b && e[3].U == c && e[4].K == verifh.KEnd, "node value and children appear once, in order")
	}
}
