//verif:package github.com/kstenerud/go-concise-encoding/iterator
//verif:bounds struct and record iterators built by the real extractFields/newStructIterator/newRecordIterators over 6 struct shapes (flat, embedded structs nested 1..5 deep with sibling fields at every level, a field with an omit tag, a field with a name tag); every field a symbolic uint64
package iterator

import (
	"reflect"

	"github.com/kstenerud/go-concise-encoding/internal/verifh"
	"github.com/kstenerud/go-concise-encoding/internal/verifrt"
)

type C05T1 struct{ P, Q uint64 }
type C05T2 struct {
	C05T1
	R uint64
}
type C05T3 struct {
	C05T2
	S uint64
}
type C05T4 struct {
	C05T3
	U uint64
}
type C05T5 struct {
	C05T4
	V uint64
}
type C05T6 struct {
	A uint64
	C05T5
	Hidden uint64 `ce:"omit"`
	W      uint64 `ce:"name=dubya"`
	lower  uint64
}

func c05Lower(s string) string {
	b := []byte(s)
	for i, c := range b {
		if c >= 'A' && c <= 'Z' {
			b[i] = c + 32
		}
	}
	return string(b)
}

// Every non-omitted exported field appears once, in declaration order
// (embedded structs flattened), under its name, with its own contents.
func Verif_C05_StructFields() {
	shape := verifrt.Choice("shape", 6)
	asRecord := verifrt.Choice("asRecord", 2) == 1
	f := make([]uint64, 9)
	for i := range f {
		f[i] = verifrt.U64("field")
	}
	t1 := C05T1{f[0], f[1]}
	t2 := C05T2{t1, f[2]}
	t3 := C05T3{t2, f[3]}
	t4 := C05T4{t3, f[4]}
	t5 := C05T5{t4, f[5]}
	t6 := C05T6{A: f[6], C05T5: t5, Hidden: f[7], W: f[8], lower: 1}
	var v interface{}
	var names []string
	var want []uint64
	switch shape {
	case 0:
		v, names, want = t1, []string{"p", "q"}, f[0:2]
	case 1:
		v, names, want = t2, []string{"p", "q", "r"}, f[0:3]
	case 2:
		v, names, want = t3, []string{"p", "q", "r", "s"}, f[0:4]
	case 3:
		v, names, want = t4, []string{"p", "q", "r", "s", "u"}, f[0:5]
	case 4:
		v, names, want = t5, []string{"p", "q", "r", "s", "u", "v"}, f[0:6]
	case 5:
		v = t6
		names = []string{"a", "p", "q", "r", "s", "u", "v", "dubya"}
		want = []uint64{f[6], f[0], f[1], f[2], f[3], f[4], f[5], f[8]}
	}
	ctx, rec, r := harnessContext()
	r.OnBeginDocument()
	r.OnVersion(0)
	rejected := verifh.Try(func() {
		rv := reflect.ValueOf(v)
		if asRecord {
			typeIter, recIter := newRecordIterators(ctx, rv.Type(), "t")
			typeIter(ctx, rv)
			recIter(ctx, rv)
		} else {
			newStructIterator(ctx, rv.Type())(ctx, rv)
		}
		r.OnEndDocument()
	})
	verifrt.Reach("iterated")
	verifrt.Assert(!rejected, "the events of a struct are accepted by the validator")
	e := rec.Evs[2:]
	n := len(want)
	if asRecord {
		verifrt.Assert(len(e) == 2*n+5, "record type with one key per field, record with one value per field")
		verifrt.Assert(e[0].K == verifh.KRecordType && e[n+1].K == verifh.KEnd && e[n+2].K == verifh.KRecord && e[2*n+3].K == verifh.KEnd, "record type and record framing")
		for k := 0; k < n; k++ {
			verifrt.Assert(e[1+k].K == verifh.KStringArray && c05Lower(string(e[1+k].S)) == names[k], "record type key k is field k's name")
			verifrt.Assert(e[n+3+k].K == verifh.KPosInt && e[n+3+k].U == want[k], "record value k is field k's contents")
		}
		return
	}
	verifrt.Assert(len(e) == 2*n+3, "one key and one value per field")
	verifrt.Assert(e[0].K == verifh.KMap && e[2*n+1].K == verifh.KEnd, "map framing")
	for k := 0; k < n; k++ {
		verifrt.Assert(e[1+2*k].K == verifh.KStringArray && c05Lower(string(e[1+2*k].S)) == names[k], "key k is field k's name")
		verifrt.Assert(e[2+2*k].K == verifh.KPosInt && e[2+2*k].U == want[k], "value k is field k's contents")
	}
}
