//verif:package github.com/kstenerud/go-concise-encoding/iterator
//verif:bounds the real iterator Session on typed values with symbolic contents: a struct holding pointers of two types that may share an address (a struct and its first field) with recursion support on and off; []string, map[string]uint8, nested struct with nil and non-nil pointers, []struct, interface{} elements
//verif:assume reflect (Value.Pointer = Go's address identity: a struct shares its address with its first field), sync.Map and WaitGroup are the engine's emulation / sequential model; the expected value tree is written by hand per type
package iterator

import (
	"github.com/kstenerud/go-concise-encoding/configuration"
	"github.com/kstenerud/go-concise-encoding/internal/verifh"
	"github.com/kstenerud/go-concise-encoding/internal/verifrt"
	"github.com/kstenerud/go-concise-encoding/rules"
)

type C05In struct {
	X uint64
	Y uint64
}

type C05Mixed struct {
	A *C05In
	B *uint64
	C *C05In
	D *uint64
}

type C05Holder struct {
	L []string
	M map[string]uint8
	P *C05In
	N *C05In
	S []C05In
	I []interface{}
}

func c05Leaf(e verifh.Ev) *verifh.Node { return &verifh.Node{Ev: e} }
func c05Str(s string) *verifh.Node {
	return c05Leaf(verifh.Ev{K: verifh.KStringArray, U: uint64(17), S: []byte(s)})
}
func c05Uint(v uint64) *verifh.Node { return c05Leaf(verifh.Ev{K: verifh.KPosInt, U: v}) }
func c05Map(kv ...*verifh.Node) *verifh.Node {
	return &verifh.Node{Ev: verifh.Ev{K: verifh.KMap}, Kids: kv}
}
func c05List(kids ...*verifh.Node) *verifh.Node {
	return &verifh.Node{Ev: verifh.Ev{K: verifh.KList}, Kids: kids}
}

// leaves: integers by value, strings by bytes (the array type code of the
// hand-written tree is not compared), the rest field by field
func c05SameLeaf(a, b verifh.Ev) bool {
	okA, negA, magA := verifh.IntValue(a)
	okB, negB, magB := verifh.IntValue(b)
	if okA || okB {
		return verifrt.And(okA, okB, magA == magB, verifrt.Or(negA == negB, magA == 0))
	}
	if a.K == verifh.KStringArray && b.K == verifh.KStringArray {
		return len(a.S) == len(b.S) && verifrt.BytesEq(a.S, b.S)
	}
	return verifrt.And(a.K == b.K, a.U == b.U, a.U2 == b.U2, a.B == b.B, verifrt.BytesEq(a.S, b.S))
}

func c05Describe(cfg *configuration.Configuration, v interface{}) *verifh.Node {
	rec := &verifh.Rec{}
	failed := verifh.Try(func() { NewSession(nil, cfg).NewIterator(rules.NewRules(rec, cfg)).Iterate(v) })
	verifrt.Reach("iterated")
	verifrt.Assert(!failed, "the events of the value are accepted by the validator")
	tree, ok := verifh.ParseTree(rec.Evs)
	verifrt.Assert(ok, "the events form one complete value (markers defined, references resolved)")
	return tree
}

// Pointers of different types to one address are different references: each
// pointer is described by the value it points to.
func Verif_C05_SharedPointersDescribed() {
	in := &C05In{X: verifrt.U64("x"), Y: verifrt.U64("y")}
	other := verifrt.U64("other")
	v := C05Mixed{A: in, C: in}
	if verifrt.Choice("bPointsIntoA", 2) == 1 {
		v.B, v.D = &in.X, &in.X
	} else {
		v.B, v.D = &other, &in.Y
	}
	cfg := configuration.New()
	cfg.Iterator.RecursionSupport = verifrt.Choice("recursionSupport", 2) == 1
	got := c05Describe(cfg, v)
	inner := func() *verifh.Node { return c05Map(c05Str("x"), c05Uint(in.X), c05Str("y"), c05Uint(in.Y)) }
	want := c05Map(c05Str("a"), inner(), c05Str("b"), c05Uint(*v.B), c05Str("c"), inner(), c05Str("d"), c05Uint(*v.D))
	verifrt.Assert(verifh.SameTree(want, got, c05SameLeaf), "every field is described by exactly the value it holds or points to")
}

// Lists, maps, nil and non-nil pointers, slices of structs, interface elements.
func Verif_C05_ContainersDescribed() {
	a, b := verifrt.U8("a"), verifrt.U8("b")
	x := verifrt.U64("x")
	s := verifrt.Bytes("s", 1)
	verifrt.Assume(s[0] >= 'a' && s[0] <= 'z')
	v := C05Holder{
		L: []string{string(s), "two"},
		M: map[string]uint8{"k": a, "l": b},
		P: &C05In{X: x, Y: 2},
		S: []C05In{{X: 1, Y: x}, {X: 3, Y: 4}},
		I: []interface{}{x, string(s), nil, []interface{}{true}},
	}
	got := c05Describe(configuration.New(), v)
	null := c05Leaf(verifh.Ev{K: verifh.KNull})
	in := func(p, q uint64) *verifh.Node { return c05Map(c05Str("x"), c05Uint(p), c05Str("y"), c05Uint(q)) }
	want := c05Map(
		c05Str("l"), c05List(c05Str(string(s)), c05Str("two")),
		c05Str("m"), c05Map(c05Str("k"), c05Uint(uint64(a)), c05Str("l"), c05Uint(uint64(b))),
		c05Str("p"), in(x, 2),
		c05Str("s"), c05List(in(1, x), in(3, 4)),
		c05Str("i"), c05List(c05Uint(x), c05Str(string(s)), null, c05List(c05Leaf(verifh.Ev{K: verifh.KBool, B: true}))),
	)
	// the nil pointer N is omitted (default omit behaviour: empty)
	verifrt.Assert(verifh.SameTree(want, got, c05SameLeaf), "every list element, map entry and non-omitted field appears once with the same contents")
}
