//verif:package github.com/kstenerud/go-concise-encoding/internal/verifh/c11
//verif:bounds array types string, resource id, custom text, uint8, uint16, bit; total content <= 4 bytes (quick) / 5 (thorough), every byte symbolic (ill-formed UTF-8 included); <= 2 chunks with any element split incl. zero-length chunks; each chunk's bytes split into <= 2 data events at any point
//verif:assume media type strings and remote references are delivered through the same string rule as strings (not separately generated)
package c11

import (
	"unicode/utf8"

	"github.com/kstenerud/go-concise-encoding/ce/events"
	"github.com/kstenerud/go-concise-encoding/configuration"
	"github.com/kstenerud/go-concise-encoding/internal/verifh"
	"github.com/kstenerud/go-concise-encoding/internal/verifrt"
	"github.com/kstenerud/go-concise-encoding/rules"
)

func begin(r *rules.RulesEventReceiver) {
	r.OnBeginDocument()
	r.OnVersion(0)
}

// deliver sends content as chunks [0:c) and [c:n) (second chunk omitted when
// single is set), each chunk's bytes in up to two data events split at d1/d2.
func deliver(r events.DataEventReceiver, at events.ArrayType, esz int, content []byte, c int, single bool, d1, d2 int) {
	if at == events.ArrayTypeCustomText {
		r.OnCustomBegin(at, 1)
	} else {
		r.OnArrayBegin(at)
	}
	sendChunk := func(b []byte, more bool, d int) {
		r.OnArrayChunk(uint64(len(b)/esz), more)
		if len(b) == 0 {
			return
		}
		if d > 0 && d < len(b) {
			r.OnArrayData(b[:d])
			r.OnArrayData(b[d:])
		} else {
			r.OnArrayData(b)
		}
	}
	if single {
		sendChunk(content, false, d1)
		return
	}
	sendChunk(content[:c], true, d1)
	sendChunk(content[c:], false, d2)
}

var stringTypes = []events.ArrayType{events.ArrayTypeString, events.ArrayTypeResourceID, events.ArrayTypeCustomText}

func maxLen() int {
	if verifrt.Thorough() {
		return 5
	}
	return 4
}

// String-like arrays: accepted exactly when every chunk is valid UTF-8 on its
// own (= whole content valid and chunk boundaries on character boundaries),
// whatever the split into data events.
func Verif_C11_StringSplit() {
	at := stringTypes[verifrt.Choice("type", len(stringTypes))]
	n := verifrt.Choice("len", maxLen()) + 1
	content := verifrt.Bytes("b", n)
	single := verifrt.Choice("single", 2) == 0
	c := 0
	if !single {
		c = verifrt.Choice("chunk", n+1)
	}
	d1 := verifrt.Choice("d1", n+1)
	d2 := verifrt.Choice("d2", n+1)
	var want bool
	if single {
		verifrt.Assume(d1 < n)
		verifrt.Assume(d2 == 0)
		want = utf8.Valid(content)
	} else {
		verifrt.Assume(d1 == 0 || d1 < c)
		verifrt.Assume(d2 == 0 || d2 < n-c)
		want = utf8.Valid(content[:c]) && utf8.Valid(content[c:])
	}
	cfg := configuration.New()
	r := rules.NewRules(&verifh.Rec{}, cfg)
	begin(r)
	rej := verifh.Try(func() {
		deliver(r, at, 1, content, c, single, d1, d2)
		r.OnEndDocument()
	})
	verifrt.Known("KF-C11-split-rune", verifrt.And(want, rej))
	if want {
		verifrt.Reach("valid")
	} else {
		verifrt.Reach("invalid")
	}
	verifrt.Assert(rej == !want, "string-like array accepted exactly when its chunks are valid UTF-8, independent of data-event splits")
}

var binTypes = []events.ArrayType{events.ArrayTypeUint8, events.ArrayTypeUint16, events.ArrayTypeBit}

// Non-string arrays are accepted for every content and every split, as long
// as the delivered bytes match the declared counts.
func Verif_C11_BinarySplit() {
	ti := verifrt.Choice("type", len(binTypes))
	at := binTypes[ti]
	esz := 1
	if at == events.ArrayTypeUint16 {
		esz = 2
	}
	n := (verifrt.Choice("elems", 3) + 1) * esz
	content := verifrt.Bytes("b", n)
	single := verifrt.Choice("single", 2) == 0
	c := 0
	if !single {
		c = verifrt.Choice("chunk", n/esz+1) * esz
	}
	d1 := verifrt.Choice("d1", n+1)
	d2 := verifrt.Choice("d2", n+1)
	if single {
		verifrt.Assume(d1 < n)
		verifrt.Assume(d2 == 0)
	} else {
		verifrt.Assume(d1 == 0 || d1 < c)
		verifrt.Assume(d2 == 0 || d2 < n-c)
	}
	if at == events.ArrayTypeBit {
		// element count is in bits: deliver whole bytes as 8 elements each
		esz = 1
	}
	cfg := configuration.New()
	r := rules.NewRules(&verifh.Rec{}, cfg)
	begin(r)
	rej := verifh.Try(func() {
		if at == events.ArrayTypeBit {
			deliverBits(r, content, c, single, d1, d2)
		} else {
			deliver(r, at, esz, content, c, single, d1, d2)
		}
		r.OnEndDocument()
	})
	verifrt.Reach("done")
	verifrt.Assert(!rej, "typed array with matching byte counts accepted for every split")
}

func deliverBits(r events.DataEventReceiver, content []byte, c int, single bool, d1, d2 int) {
	r.OnArrayBegin(events.ArrayTypeBit)
	sendChunk := func(b []byte, more bool, d int) {
		r.OnArrayChunk(uint64(len(b)*8), more)
		if len(b) == 0 {
			return
		}
		if d > 0 && d < len(b) {
			r.OnArrayData(b[:d])
			r.OnArrayData(b[d:])
		} else {
			r.OnArrayData(b)
		}
	}
	if single {
		sendChunk(content, false, d1)
		return
	}
	sendChunk(content[:c], true, d1)
	sendChunk(content[c:], false, d2)
}

// Delivered data must match the declared chunk length: longer data is rejected
// at the data event, shorter data when the array is continued or the document ends.
func Verif_C11_CountMismatch() {
	at := []events.ArrayType{events.ArrayTypeString, events.ArrayTypeUint8, events.ArrayTypeUint16}[verifrt.Choice("type", 3)]
	esz := uint64(1)
	if at == events.ArrayTypeUint16 {
		esz = 2
	}
	declared := uint64(verifrt.U8("declared"))
	verifrt.Assume(declared >= 1 && declared <= 3)
	actual := verifrt.Choice("actual", 8) // bytes delivered in one data event
	data := make([]byte, actual)
	for i := range data {
		data[i] = 'a'
	}
	cfg := configuration.New()
	r := rules.NewRules(&verifh.Rec{}, cfg)
	begin(r)
	r.OnArrayBegin(at)
	r.OnArrayChunk(declared, false)
	rejData := false
	if actual > 0 {
		rejData = verifh.Try(func() { r.OnArrayData(data) })
	}
	want := declared * esz
	if uint64(actual) > want {
		verifrt.Reach("too-long")
		verifrt.Assert(rejData, "data beyond the declared chunk length is rejected")
		return
	}
	verifrt.Assert(!rejData, "data within the declared chunk length is accepted")
	rejEnd := verifh.Try(func() { r.OnEndDocument() })
	verifrt.Reach("ended")
	verifrt.Assert(rejEnd == (uint64(actual) < want), "document end accepted exactly when the chunk data is complete")
}

// The last chunk must be final: ending the document after a non-final chunk is rejected.
func Verif_C11_LastChunkFinal() {
	at := []events.ArrayType{events.ArrayTypeString, events.ArrayTypeUint8}[verifrt.Choice("type", 2)]
	more := verifrt.Bool("more")
	empty := verifrt.Choice("empty", 2) == 0
	cfg := configuration.New()
	r := rules.NewRules(&verifh.Rec{}, cfg)
	begin(r)
	r.OnArrayBegin(at)
	if empty {
		r.OnArrayChunk(0, more)
	} else {
		r.OnArrayChunk(1, more)
		r.OnArrayData([]byte{'x'})
	}
	rej := verifh.Try(func() { r.OnEndDocument() })
	verifrt.Reach("done")
	verifrt.Assert(rej == more, "array is complete exactly when its last chunk is final")
}
