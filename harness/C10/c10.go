//verif:package github.com/kstenerud/go-concise-encoding/internal/verifh/c10
//verif:bounds event histories of length <= 5 (quick) / 6 (thorough) after BeginDocument,Version; alphabet {Null, PosInt(sym), Float, List, Map, Node, Edge, End, RecordType(sym id), Record(sym id), EndDocument}; ids 1 symbolic byte in [a-z]; integer payloads symbolic (8 bit range)
//verif:assume padding and comments are not generated; markers/references are C13, arrays C11
package c10

import (
	"github.com/kstenerud/go-concise-encoding/configuration"
	"github.com/kstenerud/go-concise-encoding/internal/verifh"
	"github.com/kstenerud/go-concise-encoding/internal/verifrt"
	"github.com/kstenerud/go-concise-encoding/rules"
)

// ---- reference automaton (DESIGN.md A.2), written from the statement ----

type fkind int

const (
	fList fkind = iota
	fMapKey
	fMapValue
	fNode0
	fNode
	fEdge0
	fEdge1
	fEdge2
	fEdge3
	fRecordType
	fRecord
)

type frame struct {
	k    fkind
	keys []uint64 // map / record type keys seen
	n    int      // record: values still expected; record type: keys so far
	id   byte     // record type id
}

type ref struct {
	stack   []frame
	topDone bool
	types   []byte // defined record type ids
	arity   []int
}

func (r *ref) top() *frame { return &r.stack[len(r.stack)-1] }

func (r *ref) lookupType(id byte) (int, bool) {
	for i, t := range r.types {
		if t == id {
			return r.arity[i], true
		}
	}
	return 0, false
}

// takesValue: may the current position take a value of this class?
// returns false if the value must be rejected.
func (r *ref) takesValue(null, keyable bool, key uint64) bool {
	if len(r.stack) == 0 {
		return !r.topDone
	}
	f := r.top()
	switch f.k {
	case fList, fNode, fMapValue, fNode0, fEdge1:
		return true
	case fMapKey, fRecordType:
		if null || !keyable {
			return false
		}
		for _, k := range f.keys {
			if k == key {
				return false
			}
		}
		return true
	case fEdge0, fEdge2:
		return !null
	case fEdge3:
		return false
	case fRecord:
		return f.n > 0
	}
	return false
}

// consumed advances the current position after a complete value.
func (r *ref) consumed(keyable bool, key uint64) {
	if len(r.stack) == 0 {
		r.topDone = true
		return
	}
	f := r.top()
	switch f.k {
	case fMapKey:
		if keyable {
			f.keys = append(f.keys, key)
		}
		f.k = fMapValue
	case fMapValue:
		f.k = fMapKey
	case fNode0:
		f.k = fNode
	case fEdge0:
		f.k = fEdge1
	case fEdge1:
		f.k = fEdge2
	case fEdge2:
		f.k = fEdge3
	case fRecordType:
		f.keys = append(f.keys, key)
		f.n++
	case fRecord:
		f.n--
	}
}

// container start: allowed where a non-null, non-keyable value is allowed.
func (r *ref) begin(k fkind, n int) bool {
	if !r.takesValue(false, false, 0) {
		return false
	}
	r.stack = append(r.stack, frame{k: k, n: n})
	return true
}

func (r *ref) end() bool {
	if len(r.stack) == 0 {
		return false
	}
	f := r.top()
	switch f.k {
	case fList, fMapKey, fNode, fEdge3:
	case fRecord:
		if f.n != 0 {
			return false
		}
	case fRecordType:
		if _, dup := r.lookupType(f.id); dup {
			return false
		}
		r.types = append(r.types, f.id)
		r.arity = append(r.arity, f.n)
		r.stack = r.stack[:len(r.stack)-1]
		return true // a record type is not a value of its parent
	default:
		return false
	}
	r.stack = r.stack[:len(r.stack)-1]
	r.consumed(false, 0)
	return true
}

const (
	eNull = iota
	ePosInt
	eFloat
	eList
	eMap
	eNode
	eEdge
	eEnd
	eRecordType
	eRecord
	eEndDocument
	numEvents
)

func runHistory(L int) {
	cfg := configuration.New()
	rec := &verifh.Rec{}
	r := rules.NewRules(rec, cfg)
	r.OnBeginDocument()
	r.OnVersion(0)
	m := &ref{}
	for i := 0; i < L; i++ {
		ev := verifrt.Choice("ev", numEvents)
		var implRej, refOK bool
		dupTypeAtBegin := false
		switch ev {
		case eNull:
			refOK = m.takesValue(true, false, 0)
			implRej = verifh.Try(func() { r.OnNull() })
			if refOK {
				m.consumed(false, 0)
			}
		case ePosInt:
			v := uint64(verifrt.U8("int"))
			refOK = m.takesValue(false, true, v)
			implRej = verifh.Try(func() { r.OnPositiveInt(v) })
			if refOK {
				m.consumed(true, v)
			}
		case eFloat:
			refOK = m.takesValue(false, false, 0)
			implRej = verifh.Try(func() { r.OnFloat(1.5) })
			if refOK {
				m.consumed(false, 0)
			}
		case eList:
			refOK = m.begin(fList, 0)
			implRej = verifh.Try(func() { r.OnList() })
		case eMap:
			refOK = m.begin(fMapKey, 0)
			implRej = verifh.Try(func() { r.OnMap() })
		case eNode:
			refOK = m.begin(fNode0, 0)
			implRej = verifh.Try(func() { r.OnNode() })
		case eEdge:
			refOK = m.begin(fEdge0, 0)
			implRej = verifh.Try(func() { r.OnEdge() })
		case eEnd:
			refOK = m.end()
			implRej = verifh.Try(func() { r.OnEndContainer() })
		case eRecordType:
			id := verifrt.U8("id")
			verifrt.Assume(id >= 'a' && id <= 'z')
			refOK = len(m.stack) == 0 && !m.topDone
			if refOK {
				_, dupTypeAtBegin = m.lookupType(id)
				m.stack = append(m.stack, frame{k: fRecordType, id: id})
			}
			implRej = verifh.Try(func() { r.OnRecordType([]byte{id}) })
		case eRecord:
			id := verifrt.U8("id")
			verifrt.Assume(id >= 'a' && id <= 'z')
			n, defined := m.lookupType(id)
			refOK = defined && m.begin(fRecord, n)
			implRej = verifh.Try(func() { r.OnRecord([]byte{id}) })
		case eEndDocument:
			refOK = len(m.stack) == 0 && m.topDone
			implRej = verifh.Try(func() { r.OnEndDocument() })
		}
		if dupTypeAtBegin && implRej {
			return // statement allows rejecting a duplicate type at either event
		}
		verifrt.Assert(implRej == !refOK, "validator verdict equals the reference automaton at this event")
		if implRej {
			verifrt.Reach("rejected")
			return
		}
		if ev == eEndDocument {
			verifrt.Reach("accepted-document")
			return
		}
	}
	verifrt.Reach("prefix-accepted")
}

func Verif_C10_History() {
	L := 5
	if verifrt.Thorough() {
		L = 6
	}
	runHistory(L)
}

func Verif_C10_Version() {
	v := verifrt.U64("version")
	cfg := configuration.New()
	r := rules.NewRules(&verifh.Rec{}, cfg)
	r.OnBeginDocument()
	rej := verifh.Try(func() { r.OnVersion(v) })
	verifrt.Reach("done")
	verifrt.Assert(rej == (v != 0), "only version 0 is accepted")
}

// Events before BeginDocument / Version and after EndDocument are rejected.
func Verif_C10_Envelope() {
	cfg := configuration.New()
	r := rules.NewRules(&verifh.Rec{}, cfg)
	stage := verifrt.Choice("stage", 3) // 0: nothing yet, 1: after BeginDocument, 2: after complete document
	if stage >= 1 {
		r.OnBeginDocument()
	}
	if stage == 2 {
		r.OnVersion(0)
		r.OnNull()
		r.OnEndDocument()
	}
	ev := verifrt.Choice("ev", 6)
	rej := verifh.Try(func() {
		switch ev {
		case 0:
			r.OnNull()
		case 1:
			r.OnList()
		case 2:
			r.OnEndContainer()
		case 3:
			r.OnEndDocument()
		case 4:
			r.OnPositiveInt(1)
		case 5:
			r.OnBeginDocument()
		}
	})
	verifrt.Reach("done")
	want := true
	if stage == 0 && ev == 5 {
		want = false
	}
	verifrt.Assert(rej == want, "events outside the begin/version ... end envelope are rejected")
}
