//verif:package github.com/kstenerud/go-concise-encoding/internal/verifh/c06
//verif:config cap=300 maxsec=1800
//verif:bounds rules-valid event streams from templates with symbolic payloads, unmarshaled with no template by the real builder Session/BuilderEventReceiver and marshaled again by the real iterator Session: integers in all three event forms over all 64-bit payloads, floats (all bit patterns), booleans, null in containers, strings of 0..3 symbolic ASCII bytes, typed arrays (uint8, uint16, int32, float64 of 0..2 symbolic elements, whole and chunked), lists and maps nested to depth 2 with 1..2 entries, nodes, edges, record types + records (1..3 keys, one or two types; also through the real CBE encoder and decoder), markers with backward and forward references to scalars, lists and maps (one forward reference inside a list that grows by 3..5 elements before its marker arrives), comments and padding between events; free event histories of <= 4 (quick) / 5 (thorough) events over {marker, reference (ids a/b), integer, null, string, true, list, map, node, end} that the real validator accepts as complete, acyclic documents
//verif:assume the event streams are delivered directly to the builder after the real rules validator accepted them (the byte decoders are covered by C01/C07); reflect, sync.Map and WaitGroup are the engine's emulation / sequential model; "the same data" is compared on value trees: integers by value, map entries in any order, records as maps over their type's keys, references replaced by their targets, comments and padding dropped. Big numbers, times, media, custom types, resource ids and documents whose marshaled form needs recursion support are not generated
package c06

import (
	"math"

	"github.com/kstenerud/go-concise-encoding/builder"
	"github.com/kstenerud/go-concise-encoding/cbe"
	"github.com/kstenerud/go-concise-encoding/ce/events"
	"github.com/kstenerud/go-concise-encoding/configuration"
	"github.com/kstenerud/go-concise-encoding/internal/verifh"
	"github.com/kstenerud/go-concise-encoding/internal/verifrt"
	"github.com/kstenerud/go-concise-encoding/iterator"
	"github.com/kstenerud/go-concise-encoding/rules"
)

// sameLeaf: integers by value whatever event form carries them; arrays of
// string type whole or joined; everything else field by field.
func sameLeaf(s, g verifh.Ev) bool {
	okS, negS, magS := intValue(s)
	okG, negG, magG := intValue(g)
	if okS || okG {
		return verifrt.And(okS, okG, magS == magG, verifrt.Or(negS == negG, magS == 0))
	}
	sk, gk := s.K, g.K
	if sk == verifh.KStringArray {
		sk, s.U2 = verifh.KArray, uint64(len(s.S))
	}
	if gk == verifh.KStringArray {
		gk, g.U2 = verifh.KArray, uint64(len(g.S))
	}
	return verifrt.And(sk == gk, s.U == g.U, s.U2 == g.U2, s.B == g.B, verifrt.BytesEq(s.S, g.S), verifrt.BytesEq(s.S2, g.S2))
}

// intValue: the integer event forms, including a big integer event whose
// magnitude fits one word (-2^64 < v <= -2^63 comes back that way).
func intValue(e verifh.Ev) (ok bool, neg bool, mag uint64) {
	if e.K == verifh.KBigInt && len(e.S) <= 8 {
		for k, c := range e.S {
			mag |= uint64(c) << (8 * uint(k))
		}
		return true, e.B, mag
	}
	return verifh.IntValue(e)
}

// roundTrip validates the stream, unmarshals it into an interface{}, marshals
// the value again and compares the two value trees.
func roundTrip(send func(r events.DataEventReceiver)) { roundTripVia(send, false) }

// roundTripVia: with throughCBE the stream reaches the builder the way a
// caller's does, through the real CBE encoder, the document bytes and the real
// CBE decoder (whose array events hand out a reused buffer).
func roundTripVia(send func(r events.DataEventReceiver), throughCBE bool) {
	cfg := configuration.New()
	sent := &verifh.Rec{}
	if verifh.Try(func() { send(rules.NewRules(sent, cfg)) }) {
		verifrt.Assume(false) // not a rules-valid document for these payloads
	}
	want, okWant := verifh.ParseTree(sent.Evs)
	verifrt.Assert(okWant, "harness: the sent stream parses as a value tree")

	b := builder.NewSession(nil, cfg).NewBuilderFor(nil)
	var failed bool
	if throughCBE {
		sink := &verifh.Sink{}
		enc := cbe.NewEncoder(cfg)
		enc.PrepareToEncode(sink)
		send(enc)
		failed = cbe.NewDecoder(cfg).DecodeDocument(sink.Buf, rules.NewRules(b, cfg)) != nil
	} else {
		failed = verifh.Try(func() { send(b) })
	}
	verifrt.Reach("unmarshaled")
	verifrt.Assert(!failed, "a rules-valid document unmarshals into an untyped value without error")
	if failed {
		return
	}
	obj := b.GetBuiltObject()

	back := &verifh.Rec{}
	failed = verifh.Try(func() { iterator.NewSession(nil, cfg).NewIterator(rules.NewRules(back, cfg)).Iterate(obj) })
	verifrt.Reach("marshaled")
	verifrt.Assert(!failed, "the unmarshaled value marshals into a rules-valid document")
	if failed {
		return
	}
	got, okGot := verifh.ParseTree(back.Evs)
	verifrt.Assert(okGot, "the marshaled stream is one complete value")
	verifrt.Assert(verifh.SameTree(want, got, sameLeaf), "marshaling the unmarshaled value yields the same data")
}

func doc(value func(r events.DataEventReceiver)) func(r events.DataEventReceiver) {
	return func(r events.DataEventReceiver) {
		r.OnBeginDocument()
		r.OnVersion(0)
		value(r)
		r.OnEndDocument()
	}
}

// position places value at top level, in a list, as a map value, as a map key.
func position(pos int, value func(r events.DataEventReceiver)) func(r events.DataEventReceiver) {
	return doc(func(r events.DataEventReceiver) {
		switch pos {
		case 0:
			value(r)
		case 1:
			r.OnList()
			r.OnTrue()
			value(r)
			r.OnNull()
			r.OnEndContainer()
		case 2:
			r.OnMap()
			r.OnStringlikeArray(events.ArrayTypeString, "k")
			value(r)
			r.OnEndContainer()
		case 3:
			r.OnMap()
			value(r)
			r.OnFalse()
			r.OnEndContainer()
		}
	})
}

func Verif_C06_Integers() {
	v := verifrt.U64("v")
	form := verifrt.Choice("form", 3)
	pos := verifrt.Choice("pos", 4)
	roundTrip(position(pos, func(r events.DataEventReceiver) {
		switch form {
		case 0:
			r.OnPositiveInt(v)
		case 1:
			verifrt.Assume(v != 0) // NegativeInt(0) denotes -0.0, see Verif_C06_NegativeZero
			r.OnNegativeInt(v)
		case 2:
			r.OnInt(int64(v))
		}
	}))
}

func Verif_C06_Floats() {
	bits := verifrt.U64("bits")
	pos := verifrt.Choice("pos", 3) // floats are not keys
	isNaN := bits&0x7ff0000000000000 == 0x7ff0000000000000 && bits&0xfffffffffffff != 0
	verifrt.Assume(!isNaN) // NaN goes through its own event
	roundTrip(position(pos, func(r events.DataEventReceiver) { r.OnFloat(math.Float64frombits(bits)) }))
}

func ascii(tag string, n int) []byte {
	b := verifrt.Bytes(tag, n)
	for _, c := range b {
		verifrt.Assume(c >= 0x20 && c < 0x7f)
	}
	return b
}

func Verif_C06_Strings() {
	s := ascii("s", verifrt.Choice("len", 4))
	pos := verifrt.Choice("pos", 4)
	chunked := verifrt.Choice("chunked", 2) == 1
	c := 0
	if chunked {
		c = verifrt.Choice("split", len(s)+1)
	}
	roundTrip(position(pos, func(r events.DataEventReceiver) {
		if !chunked {
			r.OnStringlikeArray(events.ArrayTypeString, string(s))
			return
		}
		r.OnArrayBegin(events.ArrayTypeString)
		r.OnArrayChunk(uint64(c), true)
		if c > 0 {
			r.OnArrayData(s[:c])
		}
		r.OnArrayChunk(uint64(len(s)-c), false)
		if len(s)-c > 0 {
			r.OnArrayData(s[c:])
		}
	}))
}

var arrayKinds = []events.ArrayType{events.ArrayTypeUint8, events.ArrayTypeUint16, events.ArrayTypeInt32, events.ArrayTypeFloat64}
var arrayWidths = []int{1, 2, 4, 8}

func Verif_C06_TypedArrays() {
	ki := verifrt.Choice("kind", len(arrayKinds))
	at, w := arrayKinds[ki], arrayWidths[ki]
	n := verifrt.Choice("elems", 3)
	data := verifrt.Bytes("d", n*w)
	pos := verifrt.Choice("pos", 3)
	chunked := verifrt.Choice("chunked", 2) == 1
	c := 0
	if chunked {
		c = verifrt.Choice("split", n+1)
	}
	roundTrip(position(pos, func(r events.DataEventReceiver) {
		if !chunked {
			r.OnArray(at, uint64(n), data)
			return
		}
		r.OnArrayBegin(at)
		r.OnArrayChunk(uint64(c), true)
		if c > 0 {
			r.OnArrayData(data[:c*w])
		}
		r.OnArrayChunk(uint64(n-c), false)
		if n-c > 0 {
			r.OnArrayData(data[c*w:])
		}
	}))
}

func Verif_C06_Containers() {
	a, b := verifrt.U64("a"), verifrt.U64("b")
	k1, k2 := ascii("k1", 1), ascii("k2", 1)
	which := verifrt.Choice("which", 8)
	verifrt.Known("KF-C06-edge-end-rejected", which == 5)
	roundTrip(doc(func(r events.DataEventReceiver) {
		switch which {
		case 0: // empty list, empty map
			r.OnList()
			r.OnList()
			r.OnEndContainer()
			r.OnMap()
			r.OnEndContainer()
			r.OnEndContainer()
		case 1: // list in list, comments and padding around
			r.OnComment(false, []byte("c"))
			r.OnList()
			r.OnPadding()
			r.OnList()
			r.OnPositiveInt(a)
			r.OnComment(true, []byte("x"))
			r.OnNegativeInt(b | 1)
			r.OnEndContainer()
			r.OnTrue()
			r.OnEndContainer()
		case 2: // map with two entries, symbolic keys
			r.OnMap()
			r.OnStringlikeArray(events.ArrayTypeString, string(k1))
			r.OnPositiveInt(a)
			r.OnStringlikeArray(events.ArrayTypeString, string(k2))
			r.OnPositiveInt(b)
			r.OnEndContainer()
		case 3: // map with integer keys and container values
			r.OnMap()
			r.OnPositiveInt(a)
			r.OnList()
			r.OnNull()
			r.OnEndContainer()
			r.OnNegativeInt(b | 1)
			r.OnMap()
			r.OnTrue()
			r.OnFalse()
			r.OnEndContainer()
			r.OnEndContainer()
		case 4: // node
			r.OnNode()
			r.OnPositiveInt(a)
			r.OnNode()
			r.OnNull()
			r.OnEndContainer()
			r.OnStringlikeArray(events.ArrayTypeString, string(k1))
			r.OnEndContainer()
		case 5: // edge
			r.OnEdge()
			r.OnPositiveInt(a)
			r.OnNull()
			r.OnStringlikeArray(events.ArrayTypeString, string(k1))
			r.OnEndContainer()
		case 6: // list of maps
			r.OnList()
			r.OnMap()
			r.OnPositiveInt(a)
			r.OnPositiveInt(b)
			r.OnEndContainer()
			r.OnMap()
			r.OnEndContainer()
			r.OnEndContainer()
		case 7: // booleans, null and a float among integers
			r.OnList()
			r.OnBoolean(a&1 == 1)
			r.OnNull()
			r.OnFloat(1.5)
			r.OnInt(int64(b))
			r.OnEndContainer()
		}
	}))
}

func ident(tag string, n int) []byte {
	b := verifrt.Bytes(tag, n)
	for _, c := range b {
		verifrt.Assume(verifrt.Or(verifrt.And(c >= 'a', c <= 'z'), verifrt.And(c >= '0', c <= '9'), c == '_'))
	}
	return b
}

func Verif_C06_Records() { records(false) }

// Records whose keys arrive as the decoder delivers them (array events over
// the decoder's buffer), small payloads to keep the CBE integer forms few.
func Verif_C06_RecordsThroughCBE() { records(true) }

func records(throughCBE bool) {
	id := ident("id", verifrt.Choice("idlen", 2)+1)
	a, b := verifrt.U64("a"), verifrt.U64("b")
	if throughCBE {
		verifrt.Assume(a < 256 && b < 256)
	}
	k1, k2 := ascii("k1", 1), ascii("k2", 1)
	which := verifrt.Choice("which", 4)
	verifrt.Known("KF-C06-record-keys-alias-decoder-buffer", throughCBE)
	verifrt.Known("KF-C06-record-types-share-key-list", which == 3)
	if which == 3 {
		// two record types, records of both: each record gets its own type's keys
		id2 := ident("id2", 1)
		verifrt.Assume(len(id) != 1 || id[0] != id2[0])
		roundTripVia(func(r events.DataEventReceiver) {
			r.OnBeginDocument()
			r.OnVersion(0)
			r.OnRecordType(id)
			r.OnPositiveInt(1)
			r.OnStringlikeArray(events.ArrayTypeString, string(k1))
			r.OnEndContainer()
			r.OnRecordType(id2)
			r.OnPositiveInt(7)
			r.OnPositiveInt(8)
			r.OnStringlikeArray(events.ArrayTypeString, string(k2))
			r.OnEndContainer()
			r.OnList()
			r.OnRecord(id)
			r.OnPositiveInt(a)
			r.OnTrue()
			r.OnEndContainer()
			r.OnRecord(id2)
			r.OnNull()
			r.OnPositiveInt(b)
			r.OnFalse()
			r.OnEndContainer()
			r.OnEndContainer()
			r.OnEndDocument()
		}, throughCBE)
		return
	}
	roundTripVia(func(r events.DataEventReceiver) {
		r.OnBeginDocument()
		r.OnVersion(0)
		r.OnRecordType(id)
		r.OnStringlikeArray(events.ArrayTypeString, string(k1))
		if which != 0 {
			r.OnStringlikeArray(events.ArrayTypeString, string(k2))
		}
		r.OnEndContainer()
		switch which {
		case 0:
			r.OnRecord(id)
			r.OnPositiveInt(a)
			r.OnEndContainer()
		case 1:
			r.OnRecord(id)
			r.OnPositiveInt(a)
			r.OnNegativeInt(b | 1)
			r.OnEndContainer()
		case 2: // two records of one type in a list
			r.OnList()
			r.OnRecord(id)
			r.OnPositiveInt(a)
			r.OnNull()
			r.OnEndContainer()
			r.OnRecord(id)
			r.OnList()
			r.OnEndContainer()
			r.OnPositiveInt(b)
			r.OnEndContainer()
			r.OnEndContainer()
		}
		r.OnEndDocument()
	}, throughCBE)
}

func Verif_C06_References() {
	id := ident("id", verifrt.Choice("idlen", 2)+1)
	a := verifrt.U64("a")
	which := verifrt.Choice("which", 7)
	verifrt.Known("KF-C06-reference-as-map-key", which == 5)
	n := 0
	if which == 6 {
		n = verifrt.Choice("moreElements", 3) + 3 // 3..5 further elements: crosses the slice's first reallocation
	}
	roundTrip(doc(func(r events.DataEventReceiver) {
		switch which {
		case 0: // backward reference to a scalar
			r.OnList()
			r.OnMarker(id)
			r.OnPositiveInt(a)
			r.OnReferenceLocal(id)
			r.OnEndContainer()
		case 1: // backward reference to a list
			r.OnList()
			r.OnMarker(id)
			r.OnList()
			r.OnPositiveInt(a)
			r.OnEndContainer()
			r.OnReferenceLocal(id)
			r.OnEndContainer()
		case 2: // backward reference to a map, used as a map value
			r.OnMap()
			r.OnPositiveInt(1)
			r.OnMarker(id)
			r.OnMap()
			r.OnPositiveInt(a)
			r.OnNull()
			r.OnEndContainer()
			r.OnPositiveInt(2)
			r.OnReferenceLocal(id)
			r.OnEndContainer()
		case 3: // forward reference to a scalar
			r.OnList()
			r.OnReferenceLocal(id)
			r.OnMarker(id)
			r.OnPositiveInt(a)
			r.OnEndContainer()
		case 4: // forward reference to a list
			r.OnList()
			r.OnReferenceLocal(id)
			r.OnMarker(id)
			r.OnList()
			r.OnPositiveInt(a)
			r.OnEndContainer()
			r.OnEndContainer()
		case 6: // forward reference early in a list that keeps growing before the marker arrives
			r.OnList()
			r.OnPositiveInt(1)
			r.OnReferenceLocal(id)
			for i := 0; i < n; i++ {
				r.OnPositiveInt(uint64(i) + 10)
			}
			r.OnMarker(id)
			r.OnPositiveInt(a)
			r.OnEndContainer()
		case 5: // reference as a map key (to a keyable value)
			r.OnList()
			r.OnMarker(id)
			r.OnPositiveInt(a)
			r.OnMap()
			r.OnReferenceLocal(id)
			r.OnTrue()
			r.OnEndContainer()
			r.OnEndContainer()
		}
	}))
}

// ---- free histories ------------------------------------------------------------

const (
	hMarker = iota
	hRef
	hInt
	hNull
	hString
	hTrue
	hList
	hMap
	hNode
	hEnd
	numH
)

// Every event history up to the bound that the real validator accepts as a
// complete document (and that does not refer to a marker from inside its own
// value) goes through the same round trip.
func Verif_C06_Histories() {
	L := 4
	if verifrt.Thorough() {
		L = 5
	}
	n := verifrt.Choice("n", L) + 1
	kinds := make([]int, n)
	ids := make([]byte, n)
	ints := make([]uint64, n)
	chars := make([]byte, n)
	for i := 0; i < n; i++ {
		kinds[i] = verifrt.Choice("ev", numH)
		switch kinds[i] {
		case hMarker, hRef:
			ids[i] = verifrt.U8("id")
			verifrt.Assume(verifrt.Or(ids[i] == 'a', ids[i] == 'b'))
		case hInt:
			ints[i] = uint64(verifrt.U8("int"))
		case hString:
			chars[i] = verifrt.U8("char")
			verifrt.Assume(chars[i] >= 'a' && chars[i] <= 'c')
		}
	}
	send := func(r events.DataEventReceiver) {
		r.OnBeginDocument()
		r.OnVersion(0)
		for i := 0; i < n; i++ {
			switch kinds[i] {
			case hMarker:
				r.OnMarker([]byte{ids[i]})
			case hRef:
				r.OnReferenceLocal([]byte{ids[i]})
			case hInt:
				r.OnPositiveInt(ints[i])
			case hNull:
				r.OnNull()
			case hString:
				r.OnStringlikeArray(events.ArrayTypeString, string([]byte{chars[i]}))
			case hTrue:
				r.OnTrue()
			case hList:
				r.OnList()
			case hMap:
				r.OnMap()
			case hNode:
				r.OnNode()
			case hEnd:
				r.OnEndContainer()
			}
		}
		r.OnEndDocument()
	}
	// keep only the documents the validator accepts, and of those the acyclic ones
	probe := &verifh.Rec{}
	if verifh.Try(func() { send(rules.NewRules(probe, configuration.New())) }) {
		verifrt.Assume(false)
	}
	_, ok, cyclic := verifh.ParseTreeCyclic(probe.Evs)
	verifrt.Assume(ok && !cyclic)
	markedNodeValue := false
	for i := 0; i+1 < n; i++ {
		if kinds[i] == hNode && kinds[i+1] == hMarker {
			markedNodeValue = true
		}
	}
	verifrt.Known("KF-C06-marked-node-value", markedNodeValue)
	roundTrip(send)
}
