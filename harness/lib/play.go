package verifh

import (
	"math"
	"math/big"

	"github.com/cockroachdb/apd/v2"
	"github.com/kstenerud/go-concise-encoding/ce/events"
)

// Play sends recorded events to a receiver.
func Play(evs []Ev, r events.DataEventReceiver) {
	for _, e := range evs {
		switch e.K {
		case KBeginDocument:
			r.OnBeginDocument()
		case KEndDocument:
			r.OnEndDocument()
		case KVersion:
			r.OnVersion(e.U)
		case KPadding:
			r.OnPadding()
		case KComment:
			r.OnComment(e.B, e.S)
		case KNull:
			r.OnNull()
		case KBool:
			r.OnBoolean(e.B)
		case KPosInt:
			r.OnPositiveInt(e.U)
		case KNegInt:
			r.OnNegativeInt(e.U)
		case KInt:
			r.OnInt(int64(e.U))
		case KBigInt:
			r.OnBigInt(e.P.(*big.Int))
		case KFloat:
			r.OnFloat(math.Float64frombits(e.U))
		case KBigFloat:
			r.OnBigFloat(e.P.(*big.Float))
		case KDecimalFloat:
			r.OnDecimalFloat(e.D)
		case KBigDecimalFloat:
			r.OnBigDecimalFloat(e.P.(*apd.Decimal))
		case KUID:
			r.OnUID(e.S)
		case KNan:
			r.OnNan(e.B)
		case KTime:
			r.OnTime(e.T)
		case KList:
			r.OnList()
		case KMap:
			r.OnMap()
		case KRecordType:
			r.OnRecordType(e.S)
		case KRecord:
			r.OnRecord(e.S)
		case KEdge:
			r.OnEdge()
		case KNode:
			r.OnNode()
		case KEnd:
			r.OnEndContainer()
		case KMarker:
			r.OnMarker(e.S)
		case KReference:
			r.OnReferenceLocal(e.S)
		case KArray:
			r.OnArray(events.ArrayType(e.U), e.U2, e.S)
		case KStringArray:
			r.OnStringlikeArray(events.ArrayType(e.U), string(e.S))
		case KMedia:
			r.OnMedia(string(e.S2), e.S)
		case KCustomBinary:
			r.OnCustomBinary(e.U, e.S)
		case KCustomText:
			r.OnCustomText(e.U, string(e.S))
		case KArrayBegin:
			r.OnArrayBegin(events.ArrayType(e.U))
		case KMediaBegin:
			r.OnMediaBegin(string(e.S2))
		case KCustomBegin:
			r.OnCustomBegin(events.ArrayType(e.U), e.U2)
		case KArrayChunk:
			r.OnArrayChunk(e.U, e.B)
		case KArrayData:
			r.OnArrayData(e.S)
		case KError:
			r.OnError()
		}
	}
}
