package verifh

// CBEHeaders lists every CBE header that carries a length field, an
// identifier or a variable-length payload (plane-1 codes, and plane-2 codes
// behind 0x7f). Used by the byte-level harnesses to reach each of them with a
// few symbolic bytes.
var CBEHeaders = [][]byte{
	{0x66}, {0x67}, // length-prefixed positive / negative integer
	{0x76},                 // decimal float (compact float)
	{0x77},                 // local reference (identifier)
	{0x7a}, {0x7b}, {0x7c}, // date, time, timestamp (compact time)
	{0x8f},                                 // short string, 15 bytes
	{0x90}, {0x91}, {0x92}, {0x93}, {0x94}, // string, rid, custom type, uint8 array, bit array
	{0x96},                                                                                                                                         // record (identifier)
	{0x7f, 0x0f}, {0x7f, 0x1f}, {0x7f, 0x6f}, {0x7f, 0xaf}, // short arrays of 15 elements
	{0x7f, 0xe0}, {0x7f, 0xe1}, {0x7f, 0xe2}, {0x7f, 0xe6}, {0x7f, 0xea}, // chunked typed arrays
	{0x7f, 0xf0}, {0x7f, 0xf1}, {0x7f, 0xf2}, {0x7f, 0xf3}, // marker, record type, remote reference, media
}
