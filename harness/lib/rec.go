// Package verifh holds helpers shared by the harnesses: a recording event
// receiver, a byte sink, stream normalisation and comparison.
package verifh

import (
	"math"
	"math/big"

	"github.com/cockroachdb/apd/v2"
	compact_float "github.com/kstenerud/go-compact-float"
	compact_time "github.com/kstenerud/go-compact-time"
	"github.com/kstenerud/go-concise-encoding/ce/events"
	"github.com/kstenerud/go-concise-encoding/internal/verifrt"
)

type Kind int

const (
	KBeginDocument Kind = iota
	KEndDocument
	KVersion
	KPadding
	KComment
	KNull
	KBool
	KPosInt
	KNegInt
	KInt
	KBigInt
	KFloat
	KBigFloat
	KDecimalFloat
	KBigDecimalFloat
	KUID
	KNan
	KTime
	KList
	KMap
	KRecordType
	KRecord
	KEdge
	KNode
	KEnd
	KMarker
	KReference
	KArray
	KStringArray
	KMedia
	KCustomBinary
	KCustomText
	KArrayBegin
	KMediaBegin
	KCustomBegin
	KArrayChunk
	KArrayData
	KError
)

// Ev is one recorded event.
type Ev struct {
	K  Kind
	U  uint64 // integer payload / float bits / array type / chunk length / custom type
	U2 uint64 // element count / exponent
	B  bool   // bool payload / sign / moreChunks / signaling / multiline
	S  []byte // bytes payload (copied)
	S2 []byte // second bytes payload (media type)
	T  compact_time.Time
	D  compact_float.DFloat
	P  interface{} // pointer payloads kept for identity checks
}

// Rec records every event it receives.
type Rec struct {
	Evs []Ev
}

func cp(b []byte) []byte {
	if b == nil {
		return nil
	}
	c := make([]byte, len(b))
	copy(c, b)
	return c
}

func (r *Rec) add(e Ev) { r.Evs = append(r.Evs, e) }

func (r *Rec) OnBeginDocument()         { r.add(Ev{K: KBeginDocument}) }
func (r *Rec) OnEndDocument()           { r.add(Ev{K: KEndDocument}) }
func (r *Rec) OnVersion(v uint64)       { r.add(Ev{K: KVersion, U: v}) }
func (r *Rec) OnPadding()               { r.add(Ev{K: KPadding}) }
func (r *Rec) OnComment(m bool, c []byte) { r.add(Ev{K: KComment, B: m, S: cp(c)}) }
func (r *Rec) OnNull()                  { r.add(Ev{K: KNull}) }
func (r *Rec) OnBoolean(v bool)         { r.add(Ev{K: KBool, B: v}) }
func (r *Rec) OnTrue()                  { r.add(Ev{K: KBool, B: true}) }
func (r *Rec) OnFalse()                 { r.add(Ev{K: KBool, B: false}) }
func (r *Rec) OnPositiveInt(v uint64)   { r.add(Ev{K: KPosInt, U: v}) }
func (r *Rec) OnNegativeInt(v uint64)   { r.add(Ev{K: KNegInt, U: v}) }
func (r *Rec) OnInt(v int64)            { r.add(Ev{K: KInt, U: uint64(v)}) }
func (r *Rec) OnBigInt(v *big.Int) {
	if v == nil {
		r.add(Ev{K: KBigInt, P: v})
		return
	}
	r.add(Ev{K: KBigInt, B: v.Sign() < 0, S: WordsLE(v), P: v})
}
func (r *Rec) OnFloat(v float64)      { r.add(Ev{K: KFloat, U: math.Float64bits(v)}) }
func (r *Rec) OnBigFloat(v *big.Float) { r.add(Ev{K: KBigFloat, P: v}) }
func (r *Rec) OnDecimalFloat(v compact_float.DFloat) {
	r.add(Ev{K: KDecimalFloat, U: uint64(v.Coefficient), U2: uint64(int64(v.Exponent)), D: v})
}
func (r *Rec) OnBigDecimalFloat(v *apd.Decimal) { r.add(Ev{K: KBigDecimalFloat, P: v}) }
func (r *Rec) OnUID(v []byte)                   { r.add(Ev{K: KUID, S: cp(v)}) }
func (r *Rec) OnNan(signaling bool)             { r.add(Ev{K: KNan, B: signaling}) }
func (r *Rec) OnTime(v compact_time.Time)       { r.add(Ev{K: KTime, T: v}) }
func (r *Rec) OnList()                          { r.add(Ev{K: KList}) }
func (r *Rec) OnMap()                           { r.add(Ev{K: KMap}) }
func (r *Rec) OnRecordType(id []byte)           { r.add(Ev{K: KRecordType, S: cp(id)}) }
func (r *Rec) OnRecord(id []byte)               { r.add(Ev{K: KRecord, S: cp(id)}) }
func (r *Rec) OnEdge()                          { r.add(Ev{K: KEdge}) }
func (r *Rec) OnNode()                          { r.add(Ev{K: KNode}) }
func (r *Rec) OnEndContainer()                  { r.add(Ev{K: KEnd}) }
func (r *Rec) OnMarker(id []byte)               { r.add(Ev{K: KMarker, S: cp(id)}) }
func (r *Rec) OnReferenceLocal(id []byte)       { r.add(Ev{K: KReference, S: cp(id)}) }
func (r *Rec) OnArray(t events.ArrayType, n uint64, d []byte) {
	r.add(Ev{K: KArray, U: uint64(t), U2: n, S: cp(d)})
}
func (r *Rec) OnStringlikeArray(t events.ArrayType, d string) {
	r.add(Ev{K: KStringArray, U: uint64(t), S: []byte(d)})
}
func (r *Rec) OnMedia(mt string, d []byte) { r.add(Ev{K: KMedia, S2: []byte(mt), S: cp(d)}) }
func (r *Rec) OnCustomBinary(ct uint64, d []byte) {
	r.add(Ev{K: KCustomBinary, U: ct, S: cp(d)})
}
func (r *Rec) OnCustomText(ct uint64, d string) { r.add(Ev{K: KCustomText, U: ct, S: []byte(d)}) }
func (r *Rec) OnArrayBegin(t events.ArrayType)  { r.add(Ev{K: KArrayBegin, U: uint64(t)}) }
func (r *Rec) OnMediaBegin(mt string)           { r.add(Ev{K: KMediaBegin, S2: []byte(mt)}) }
func (r *Rec) OnCustomBegin(t events.ArrayType, ct uint64) {
	r.add(Ev{K: KCustomBegin, U: uint64(t), U2: ct})
}
func (r *Rec) OnArrayChunk(n uint64, more bool) { r.add(Ev{K: KArrayChunk, U: n, B: more}) }
func (r *Rec) OnArrayData(d []byte)             { r.add(Ev{K: KArrayData, S: cp(d)}) }
func (r *Rec) OnError()                         { r.add(Ev{K: KError}) }

// WordsLE returns |v| as little-endian bytes of its words, without leading zero words.
func WordsLE(v *big.Int) []byte {
	ws := v.Bits()
	n := len(ws)
	for n > 0 && ws[n-1] == 0 {
		n--
	}
	out := make([]byte, 0, n*8)
	for i := 0; i < n; i++ {
		w := uint64(ws[i])
		for k := 0; k < 8; k++ {
			out = append(out, byte(w>>(8*uint(k))))
		}
	}
	return out
}

// Sink is an io.Writer that appends.
type Sink struct{ Buf []byte }

func (w *Sink) Write(p []byte) (int, error) {
	w.Buf = append(w.Buf, p...)
	return len(p), nil
}

// Try runs f and reports whether it panicked.
func Try(f func()) (panicked bool) {
	defer func() {
		if r := recover(); r != nil {
			panicked = true
		}
	}()
	f()
	return false
}

// IntValue gives (isInt, negative, magnitude) for the integer event forms that
// fit 64 bits of magnitude.
func IntValue(e Ev) (ok bool, neg bool, mag uint64) {
	switch e.K {
	case KPosInt:
		return true, false, e.U
	case KNegInt:
		return true, true, e.U // NegInt(0) is negative zero: caller decides
	case KInt:
		if int64(e.U) < 0 {
			return true, true, uint64(-int64(e.U))
		}
		return true, false, e.U
	}
	return false, false, 0
}

var _ = verifrt.And

// FloatSpecialEq reports whether event g carries the same value as the binary
// float with the given bits, for the values that CBE stores in its single
// "special" form (zeros and infinities): a binary or decimal event is accepted.
func FloatSpecialEq(bits uint64, g Ev) bool {
	neg := bits>>63 != 0
	isInf := bits<<1 == 0x7ff0000000000000<<1
	if g.K == KFloat {
		return g.U == bits
	}
	if !isInf {
		// CBE stores +0 as integer 0 and -0 as negative integer 0
		switch g.K {
		case KPosInt:
			return !neg && g.U == 0
		case KInt:
			return !neg && g.U == 0
		case KNegInt:
			return neg && g.U == 0
		}
	}
	if g.K != KDecimalFloat {
		return false
	}
	if isInf {
		return g.D.IsInfinity() && g.D.IsNegativeInfinity() == neg
	}
	return g.D.IsZero() && g.D.IsNegativeZero() == neg
}
