package verifh

import (
	"github.com/kstenerud/go-concise-encoding/ce/events"
	"github.com/kstenerud/go-concise-encoding/internal/verifrt"
)

// A Node is one value of a document: a scalar / whole array event, or a
// container with its children (map children alternate key, value).
type Node struct {
	Ev   Ev
	Kids []*Node
}

// treeParser turns a recorded event list into a value tree, applying the
// normalisation C06 describes: comments and padding dropped, chunked arrays
// joined, records turned into maps over their record type's keys, references
// replaced by (a pointer to) their target's tree, markers removed.
type treeParser struct {
	evs     []Ev
	pos     int
	ok      bool
	types   map[string][]*Node
	markers map[string]*Node
	pending map[string][]*Node // forward references: placeholder nodes to patch
	open    map[string]bool    // markers whose value is still being read
	cyclic  bool               // a reference to a marker inside that marker's own value
}

// ParseTree parses BeginDocument Version [record types] value EndDocument.
func ParseTree(evs []Ev) (*Node, bool) {
	root, ok, cyclic := ParseTreeCyclic(evs)
	return root, ok && !cyclic
}

// ParseTreeCyclic also reports whether the document refers to a marker from
// inside that marker's own value (the value tree is then not a finite tree and
// must not be compared).
func ParseTreeCyclic(evs []Ev) (*Node, bool, bool) {
	root, ok, p := parseTree(evs)
	return root, ok, p.cyclic
}

func parseTree(evs []Ev) (*Node, bool, *treeParser) {
	p := &treeParser{evs: evs, ok: true, types: map[string][]*Node{}, markers: map[string]*Node{}, pending: map[string][]*Node{}, open: map[string]bool{}}
	p.skip()
	if !p.expect(KBeginDocument) || !p.expect(KVersion) {
		return nil, false, p
	}
	for p.peek() == KRecordType {
		id := string(p.next().S)
		var keys []*Node
		for p.ok && p.peek() != KEnd {
			keys = append(keys, p.value())
		}
		p.expect(KEnd)
		p.types[id] = keys
	}
	var root *Node
	if p.peek() != KEndDocument {
		root = p.value()
	}
	if !p.expect(KEndDocument) || p.pos != len(p.evs) || len(p.pending) != 0 {
		return nil, false, p
	}
	return root, p.ok, p
}

func (p *treeParser) skip() {
	for p.pos < len(p.evs) && (p.evs[p.pos].K == KComment || p.evs[p.pos].K == KPadding) {
		p.pos++
	}
}

func (p *treeParser) peek() Kind {
	if p.pos >= len(p.evs) {
		p.ok = false
		return KError
	}
	return p.evs[p.pos].K
}

func (p *treeParser) next() Ev {
	if p.pos >= len(p.evs) {
		p.ok = false
		return Ev{K: KError}
	}
	e := p.evs[p.pos]
	p.pos++
	p.skip()
	return e
}

func (p *treeParser) expect(k Kind) bool {
	if p.peek() != k {
		p.ok = false
		return false
	}
	p.next()
	return true
}

func (p *treeParser) kidsUntilEnd() []*Node {
	var kids []*Node
	for p.ok && p.peek() != KEnd {
		kids = append(kids, p.value())
	}
	p.expect(KEnd)
	return kids
}

func (p *treeParser) value() *Node {
	if !p.ok {
		return &Node{Ev: Ev{K: KError}}
	}
	e := p.next()
	switch e.K {
	case KList, KMap, KNode, KEdge:
		n := &Node{Ev: Ev{K: e.K}}
		if e.K == KEdge {
			n.Kids = []*Node{p.value(), p.value(), p.value()}
			p.expect(KEnd)
			return n
		}
		n.Kids = p.kidsUntilEnd()
		return n
	case KRecord:
		keys, known := p.types[string(e.S)]
		vals := p.kidsUntilEnd()
		if !known || len(vals) != len(keys) {
			p.ok = false
			return &Node{Ev: Ev{K: KError}}
		}
		n := &Node{Ev: Ev{K: KMap}}
		for i := range keys {
			n.Kids = append(n.Kids, keys[i], vals[i])
		}
		return n
	case KMarker:
		id := string(e.S)
		p.open[id] = true
		n := p.value()
		delete(p.open, id)
		p.markers[id] = n
		for _, ph := range p.pending[id] {
			*ph = *n
		}
		delete(p.pending, id)
		return n
	case KReference:
		id := string(e.S)
		if e.B { // remote reference: a value of its own
			return &Node{Ev: e}
		}
		if n, ok := p.markers[id]; ok {
			return n
		}
		if p.open[id] {
			p.cyclic = true
			return &Node{Ev: Ev{K: KError}}
		}
		ph := &Node{Ev: Ev{K: KError}}
		p.pending[id] = append(p.pending[id], ph)
		return ph
	case KArrayBegin, KMediaBegin, KCustomBegin:
		whole := Ev{K: KArray, U: e.U}
		counted := true
		if e.K == KMediaBegin {
			whole, counted = Ev{K: KMedia, S2: e.S2}, false
		} else if e.K == KCustomBegin {
			whole, counted = Ev{K: KCustomBinary, U: e.U2}, false
			if e.U == uint64(events.ArrayTypeCustomText) {
				whole.K = KCustomText
			}
		}
		for {
			c := p.next()
			if c.K != KArrayChunk {
				p.ok = false
				return &Node{Ev: Ev{K: KError}}
			}
			if counted {
				whole.U2 += c.U
			}
			for p.ok && p.pos < len(p.evs) && p.evs[p.pos].K == KArrayData {
				whole.S = append(whole.S, p.next().S...)
			}
			if !c.B {
				break
			}
		}
		return &Node{Ev: whole}
	case KEnd, KEndDocument, KRecordType, KArrayChunk, KArrayData, KError, KBeginDocument, KVersion:
		p.ok = false
		return &Node{Ev: Ev{K: KError}}
	}
	return &Node{Ev: e}
}

// SameTree compares two value trees: containers by kind and children (map
// entries in any order, matched by key), leaves with sameLeaf. The result may
// be a symbolic condition (payloads are not branched on).
func SameTree(a, b *Node, sameLeaf func(a, b Ev) bool) bool {
	if a == nil || b == nil {
		return a == nil && b == nil
	}
	ak, bk := a.Ev.K, b.Ev.K
	aCont := ak == KList || ak == KMap || ak == KNode || ak == KEdge
	bCont := bk == KList || bk == KMap || bk == KNode || bk == KEdge
	if aCont != bCont {
		return false
	}
	if !aCont {
		return sameLeaf(a.Ev, b.Ev)
	}
	if ak != bk || len(a.Kids) != len(b.Kids) {
		return false
	}
	if ak != KMap {
		ok := true
		for i := range a.Kids {
			ok = verifrt.And(ok, SameTree(a.Kids[i], b.Kids[i], sameLeaf))
		}
		return ok
	}
	// maps: every entry of a has exactly one entry of b with the same key and value
	n := len(a.Kids) / 2
	ok := true
	for i := 0; i < n; i++ {
		found := false
		for j := 0; j < n; j++ {
			found = verifrt.Or(found, verifrt.And(SameTree(a.Kids[2*i], b.Kids[2*j], sameLeaf), SameTree(a.Kids[2*i+1], b.Kids[2*j+1], sameLeaf)))
		}
		ok = verifrt.And(ok, found)
	}
	return ok
}
