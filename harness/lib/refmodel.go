package verifh

// Model is the reference well-formedness automaton (DESIGN.md A.2) extended
// with markers and local references. It is written from the property
// statements, not from the implementation. All methods return false when the
// event must be rejected at that point.

type FKind int

const (
	FList FKind = iota
	FMapKey
	FMapValue
	FNode0
	FNode
	FEdge0
	FEdge1
	FEdge2
	FEdge3
	FRecordType
	FRecord
)

type Frame struct {
	K      FKind
	Keys   []uint64
	N      int
	ID     byte
	Marked bool // container carries a marker
	MarkID byte
	RefKey bool // a local reference was used as a key of this map
	NKeys  int
}

type markDef struct {
	id      byte
	keyable bool
	isFloat bool
}

type refUse struct {
	id          byte
	needKeyable bool
}

type Model struct {
	Stack    []Frame
	TopDone  bool
	Types    []byte
	Arity    []int
	Pending  bool // a marker awaits its object
	PendID   byte
	Markers  []markDef
	Refs     []refUse
	Excluded bool // the document uses a construct the statements do not decide
	floatValue bool
}

// FloatValue is Value() for a binary/decimal float (non-keyable, non-null).
func (m *Model) FloatValue() bool {
	m.floatValue = true
	ok := m.Value(false, false, 0)
	m.floatValue = false
	return ok
}

func (m *Model) top() *Frame { return &m.Stack[len(m.Stack)-1] }

func (m *Model) LookupType(id byte) (int, bool) {
	for i, t := range m.Types {
		if t == id {
			return m.Arity[i], true
		}
	}
	return 0, false
}

// takes: may the current position take a value of this class?
func (m *Model) takes(null, keyable bool, key uint64, isRef bool) bool {
	if len(m.Stack) == 0 {
		return !m.TopDone
	}
	f := m.top()
	switch f.K {
	case FList, FNode, FMapValue, FNode0, FEdge1:
		return true
	case FMapKey:
		if isRef {
			return true
		}
		if null || !keyable {
			return false
		}
		for _, k := range f.Keys {
			if k == key {
				return false
			}
		}
		return true
	case FRecordType:
		if isRef || null || !keyable {
			return false
		}
		for _, k := range f.Keys {
			if k == key {
				return false
			}
		}
		return true
	case FEdge0, FEdge2:
		return !null
	case FEdge3:
		return false
	case FRecord:
		return f.N > 0
	}
	return false
}

func (m *Model) consumed(keyable bool, key uint64, isRef bool) {
	if len(m.Stack) == 0 {
		m.TopDone = true
		return
	}
	f := m.top()
	switch f.K {
	case FMapKey:
		if isRef {
			f.RefKey = true
		} else if keyable {
			f.Keys = append(f.Keys, key)
		}
		f.NKeys++
		if f.RefKey && f.NKeys > 1 {
			m.Excluded = true // equality of a referenced key with other keys is not decided here
		}
		f.K = FMapValue
	case FMapValue:
		f.K = FMapKey
	case FNode0:
		f.K = FNode
	case FEdge0:
		f.K = FEdge1
	case FEdge1:
		f.K = FEdge2
	case FEdge2:
		f.K = FEdge3
	case FRecordType:
		f.Keys = append(f.Keys, key)
		f.N++
	case FRecord:
		f.N--
	}
}

func (m *Model) define(id byte, keyable bool) {
	m.Markers = append(m.Markers, markDef{id, keyable, m.floatValue})
	m.floatValue = false
}

// Value: a scalar (null / keyable / non-keyable).
func (m *Model) Value(null, keyable bool, key uint64) bool {
	if !m.takes(null, keyable, key, false) {
		return false
	}
	if m.Pending {
		m.Pending = false
		m.define(m.PendID, keyable && !null)
	}
	m.consumed(keyable, key, false)
	return true
}

// Begin: a container start (list, map, node, edge).
func (m *Model) Begin(k FKind, n int) bool {
	if !m.takes(false, false, 0, false) {
		return false
	}
	f := Frame{K: k, N: n}
	if m.Pending {
		m.Pending = false
		f.Marked = true
		f.MarkID = m.PendID
	}
	m.Stack = append(m.Stack, f)
	return true
}

func (m *Model) End() bool {
	if len(m.Stack) == 0 || m.Pending {
		return false
	}
	f := m.top()
	switch f.K {
	case FList, FMapKey, FNode, FEdge3:
	case FRecord:
		if f.N != 0 {
			return false
		}
	case FRecordType:
		if _, dup := m.LookupType(f.ID); dup {
			return false
		}
		m.Types = append(m.Types, f.ID)
		m.Arity = append(m.Arity, f.N)
		m.Stack = m.Stack[:len(m.Stack)-1]
		return true
	default:
		return false
	}
	marked, id := f.Marked, f.MarkID
	m.Stack = m.Stack[:len(m.Stack)-1]
	if marked {
		m.define(id, false)
	}
	m.consumed(false, 0, false)
	return true
}

func (m *Model) RecordType(id byte) bool {
	if m.Pending || len(m.Stack) != 0 || m.TopDone {
		return false
	}
	m.Stack = append(m.Stack, Frame{K: FRecordType, ID: id})
	return true
}

func (m *Model) Record(id byte) bool {
	n, ok := m.LookupType(id)
	if !ok {
		return false
	}
	return m.Begin(FRecord, n)
}

// Marker: allowed where a value may follow; not on a marker.
func (m *Model) Marker(id byte) bool {
	if m.Pending {
		return false
	}
	if len(m.Stack) > 0 && m.top().K == FRecordType {
		return false
	}
	if !m.takes(false, true, 0, true) { // position must be able to take some value
		return false
	}
	m.Pending = true
	m.PendID = id
	return true
}

// Reference: a value naming a marker; not directly after a marker.
func (m *Model) Reference(id byte) bool {
	if m.Pending {
		return false
	}
	if !m.takes(false, false, 0, true) {
		return false
	}
	needKeyable := len(m.Stack) > 0 && m.top().K == FMapKey
	m.Refs = append(m.Refs, refUse{id, needKeyable})
	m.consumed(false, 0, true)
	return true
}

func (m *Model) EndDocument() bool {
	return !m.Pending && len(m.Stack) == 0 && m.TopDone
}

// MarkersConsistent: every reference names exactly one marker of a suitable kind
// and no identifier is defined twice.
func (m *Model) MarkersConsistent() bool { return m.markersConsistent(false) }

// MarkersConsistentIfFloatsKeyable is the same check with floats counted as keyable.
func (m *Model) MarkersConsistentIfFloatsKeyable() bool { return m.markersConsistent(true) }

func (m *Model) markersConsistent(floatKeyable bool) bool {
	for i, a := range m.Markers {
		for j, b := range m.Markers {
			if i < j && a.id == b.id {
				return false
			}
		}
	}
	for _, r := range m.Refs {
		found := false
		for _, d := range m.Markers {
			if d.id == r.id {
				found = true
				if r.needKeyable && !d.keyable && !(floatKeyable && d.isFloat) {
					return false
				}
			}
		}
		if !found {
			return false
		}
	}
	return true
}
