//verif:package github.com/kstenerud/go-concise-encoding/internal/verifh/c09
//verif:config cap=300 steps=400000000 timeout=120000 maxsec=1800
//verif:bounds CTE: 7 documents whose top-level value is a container (lists, maps, nodes, edges, records, typed arrays, strings with escapes, comments, markers), cut at every position strictly inside, through the real CTE decoder (ANTLR executed by the engine) and validator, and through the real cte.Unmarshaler with no template
//verif:assume the texts are fixed (a symbolic text would be enumerated character by character at the lexer); the version header line is part of the document
package c09

import (
	"github.com/kstenerud/go-concise-encoding/configuration"
	"github.com/kstenerud/go-concise-encoding/cte"
	"github.com/kstenerud/go-concise-encoding/internal/verifh"
	"github.com/kstenerud/go-concise-encoding/internal/verifrt"
	"github.com/kstenerud/go-concise-encoding/rules"
)

var cteTexts = []string{
	"c0\n[1 2 \"a\\tb\" null]",
	"c0\n{\"k\" = [true] 2 = -0x1f}",
	"c0\n(1 (2) \"leaf\")",
	"c0\n@(1 @\"r:x\" \"dst\")",
	"c0\n@r<\"a\" 2> [@r{1 2}]",
	"c0\n[@u8x[01 ff] @u16[1 65535] /* c */ &m:[1.5] $m]",
	"c0\n{\"a\" = {\"b\" = [[] {}]}}",
}

func Verif_C09_CTETextsCut() {
	k := verifrt.Choice("text", len(cteTexts))
	text := []byte(cteTexts[k])
	cfg := configuration.New()
	full := cte.NewDecoder(cfg).DecodeDocument(text, rules.NewRules(&verifh.Rec{}, cfg))
	verifrt.Assert(full == nil, "the full CTE document decodes")
	cut := verifrt.Choice("cut", 64)
	verifrt.Assume(cut >= 1 && cut < len(text))
	verifrt.Reach("cut")
	if verifrt.Choice("entryPoint", 2) == 0 {
		err := cte.NewDecoder(cfg).DecodeDocument(text[:cut], rules.NewRules(&verifh.Rec{}, cfg))
		verifrt.Assert(err != nil, "a proper prefix of a CTE document with a container at the top is rejected by the decoder")
	} else {
		_, err := cte.NewUnmarshaler(cfg).UnmarshalFromDocument(text[:cut], nil)
		verifrt.Assert(err != nil, "a proper prefix of a CTE document with a container at the top makes Unmarshal return an error")
	}
}
