//verif:package github.com/kstenerud/go-concise-encoding/internal/verifh/c09
//verif:config cap=300 paths=600000
//verif:bounds (a) encoder-produced CBE documents from 11 templates with symbolic payload (two with >= 64 elements, so that a chunk header is a 2-byte ULEB128), cut at every position (long payloads: the first 8 and last 8 positions); (b) raw documents of 3..4 (quick) / 5 (thorough) fully symbolic bytes that the decoder+validator accept, cut at every position (documents containing the padding code 0x95 excluded: a cut before trailing padding leaves a complete document)
//verif:assume 'partial result is a prefix of the full value' needs the builders (reflection) and is outside reach; CTE is outside reach
package c09

import (
	"github.com/kstenerud/go-concise-encoding/cbe"
	"github.com/kstenerud/go-concise-encoding/ce/events"
	"github.com/kstenerud/go-concise-encoding/configuration"
	"github.com/kstenerud/go-concise-encoding/internal/verifh"
	"github.com/kstenerud/go-concise-encoding/internal/verifrt"
	"github.com/kstenerud/go-concise-encoding/nullevent"
	"github.com/kstenerud/go-concise-encoding/rules"
)

func decode(doc []byte) error {
	cfg := configuration.New()
	return cbe.NewDecoder(cfg).DecodeDocument(doc, rules.NewRules(nullevent.NewNullEventReceiver(), cfg))
}

const numTemplates = 11

func template(k int, v uint64) []byte {
	cfg := configuration.New()
	sink := &verifh.Sink{}
	enc := cbe.NewEncoder(cfg)
	enc.PrepareToEncode(sink)
	var e events.DataEventReceiver = rules.NewRules(enc, cfg)
	e.OnBeginDocument()
	e.OnVersion(0)
	switch k {
	case 0:
		e.OnPositiveInt(v)
	case 1:
		e.OnList()
		e.OnPositiveInt(v & 0xffff)
		e.OnNull()
		e.OnEndContainer()
	case 2:
		e.OnMap()
		e.OnStringlikeArray(events.ArrayTypeString, "k")
		e.OnNegativeInt(v | 1)
		e.OnEndContainer()
	case 3:
		e.OnStringlikeArray(events.ArrayTypeString, "a string longer than fifteen bytes")
	case 4:
		e.OnArrayBegin(events.ArrayTypeUint16)
		e.OnArrayChunk(1, true)
		e.OnArrayData([]byte{byte(v), 2})
		e.OnArrayChunk(1, false)
		e.OnArrayData([]byte{3, 4})
	case 5:
		e.OnList()
		e.OnMarker([]byte("a"))
		e.OnTrue()
		e.OnReferenceLocal([]byte("a"))
		e.OnEndContainer()
	case 6:
		e.OnRecordType([]byte("t"))
		e.OnPositiveInt(1)
		e.OnEndContainer()
		e.OnRecord([]byte("t"))
		e.OnPositiveInt(v & 0xff)
		e.OnEndContainer()
	case 7:
		e.OnEdge()
		e.OnPositiveInt(1)
		e.OnNull()
		e.OnFloat(1.5)
		e.OnEndContainer()
	case 8:
		e.OnMedia("a/b", []byte{1, byte(v), 3})
	case 9: // 70-byte string: the chunk header is a 2-byte ULEB128
		e.OnStringlikeArray(events.ArrayTypeString, "0123456789012345678901234567890123456789012345678901234567890123456789")
	case 10: // 64 uint16 elements in a list: 2-byte chunk header inside a container
		e.OnList()
		e.OnArray(events.ArrayTypeUint16, 64, make([]byte, 128))
		e.OnPositiveInt(v & 0xff)
		e.OnEndContainer()
	}
	e.OnEndDocument()
	return sink.Buf
}

func Verif_C09_TemplatesCut() {
	k := verifrt.Choice("tmpl", numTemplates)
	v := verifrt.U64("v")
	doc := template(k, v)
	verifrt.Assert(decode(doc) == nil, "the full document decodes")
	cut := verifrt.Choice("cut", 48)
	verifrt.Assume(cut < len(doc))
	if k >= 9 {
		// long payloads: only the cuts in and around the headers and the tail
		verifrt.Assume(cut < 8 || cut+40 > 48)
		if cut >= 8 {
			cut = len(doc) - (48 - cut)
		}
	}
	verifrt.Reach("cut")
	verifrt.Assert(decode(doc[:cut]) != nil, "a proper prefix of a valid document is rejected")
}

func Verif_C09_RawCut() {
	maxN := 4
	if verifrt.Thorough() {
		maxN = 5
	}
	n := verifrt.Choice("len", maxN-2) + 3
	doc := verifrt.Bytes("d", n)
	for _, b := range doc {
		verifrt.Assume(b != 0x95)
	}
	verifrt.Assume(decode(doc) == nil)
	verifrt.Reach("accepted")
	cut := verifrt.Choice("cut", n)
	verifrt.Assert(decode(doc[:cut]) != nil, "a proper prefix of an accepted document is rejected")
}
