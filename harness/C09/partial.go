//verif:package github.com/kstenerud/go-concise-encoding/internal/verifh/c09
//verif:bounds the real cbe.Marshaler and cbe.Unmarshaler (sessions, builders, error wind-up) on 5 values with symbolic payloads (list of integers and strings, nested lists, map of lists, typed struct with slice and pointer fields, typed []string, an untyped list with a marked list and a reference to it written event by event), the document cut at every position
//verif:assume reflect, sync.Map and WaitGroup are the engine's emulation / sequential model; "prefix" for untyped values: a list holds a leading part of the original elements (the last one possibly itself a prefix), a map holds some of the original entries (values possibly prefixes), scalars are equal; for the typed struct every field is zero or equal / a prefix
package c09

import (
	"github.com/kstenerud/go-concise-encoding/cbe"
	"github.com/kstenerud/go-concise-encoding/ce/events"
	"github.com/kstenerud/go-concise-encoding/configuration"
	"github.com/kstenerud/go-concise-encoding/internal/verifh"
	"github.com/kstenerud/go-concise-encoding/internal/verifrt"
	"github.com/kstenerud/go-concise-encoding/rules"
)

// prefixOf: is partial a prefix of full (untyped values as the builders make them)?
// The answer may be a symbolic condition.
func prefixOf(partial, full interface{}) bool {
	if partial == nil {
		return true // nothing built in this slot
	}
	switch p := partial.(type) {
	case []interface{}:
		f, ok := full.([]interface{})
		if !ok || len(p) > len(f) {
			return false
		}
		ok2 := true
		for i := range p {
			if i == len(p)-1 {
				ok2 = verifrt.And(ok2, prefixOf(p[i], f[i]))
			} else {
				ok2 = verifrt.And(ok2, same(p[i], f[i]))
			}
		}
		return ok2
	case map[interface{}]interface{}:
		f, ok := full.(map[interface{}]interface{})
		if !ok || len(p) > len(f) {
			return false
		}
		ok2 := true
		for k, pv := range p {
			fv, present := f[k]
			if !present {
				return false
			}
			ok2 = verifrt.And(ok2, prefixOf(pv, fv))
		}
		return ok2
	}
	return same(partial, full)
}

func same(a, b interface{}) bool {
	switch x := a.(type) {
	case uint64:
		y, ok := b.(uint64)
		return ok && x == y
	case int64:
		y, ok := b.(int64)
		return ok && x == y
	case string:
		y, ok := b.(string)
		return ok && x == y
	case bool:
		y, ok := b.(bool)
		return ok && x == y
	case nil:
		return b == nil
	case []interface{}:
		y, ok := b.([]interface{})
		return ok && len(x) == len(y) && prefixOf(x, y)
	case map[interface{}]interface{}:
		y, ok := b.(map[interface{}]interface{})
		return ok && len(x) == len(y) && prefixOf(x, y)
	}
	return false
}

type P9Inner struct{ A uint16 }

type P9Wide struct {
	N     uint32
	Extra uint64
	L     []string
	Z     uint8
}

type P9Struct struct {
	N uint32
	L []string
	P *P9Inner
	Z uint8
}

func Verif_C09_PartialResultIsPrefix() {
	which := verifrt.Choice("value", 7)
	a, b := verifrt.U64("a"), verifrt.U64("b")
	s := verifrt.Bytes("s", 2)
	for _, c := range s {
		verifrt.Assume(c >= 'a' && c <= 'z')
	}
	var value, template interface{}
	switch which {
	case 0:
		value = []interface{}{a, string(s), b, true, "tail"}
	case 1:
		value = []interface{}{[]interface{}{a, b}, []interface{}{}, []interface{}{string(s), []interface{}{b}}}
	case 2:
		value = map[interface{}]interface{}{"k": []interface{}{a, b}, "l": string(s)}
	case 3:
		value, template = P9Struct{N: uint32(a), L: []string{string(s), "x"}, P: &P9Inner{A: uint16(b)}, Z: 9}, P9Struct{}
	case 4:
		value, template = []string{string(s), "second", "third"}, []string{}
	case 6: // the document has a field ("Extra") that the template lacks
		value, template = P9Wide{N: uint32(a), Extra: b, L: []string{string(s), "x"}, Z: 9}, P9Struct{}
	}
	cfg := configuration.New()
	sink := &verifh.Sink{}
	if which == 5 {
		// a document with a marker and a reference, written event by event:
		// [a "s" &m:[b] $m]
		enc := cbe.NewEncoder(cfg)
		enc.PrepareToEncode(sink)
		r := rules.NewRules(enc, cfg)
		r.OnBeginDocument()
		r.OnVersion(0)
		r.OnList()
		r.OnPositiveInt(a)
		r.OnStringlikeArray(events.ArrayTypeString, string(s))
		r.OnMarker([]byte("m"))
		r.OnList()
		r.OnPositiveInt(b)
		r.OnEndContainer()
		r.OnReferenceLocal([]byte("m"))
		r.OnEndContainer()
		r.OnEndDocument()
	} else if err := cbe.NewMarshaler(cfg).Marshal(value, sink); err != nil {
		verifrt.Assume(false)
	}
	doc := sink.Buf
	verifrt.Assume(len(doc) <= 64)
	cut := verifrt.Choice("cut", 64)
	verifrt.Assume(cut < len(doc))
	full, err := cbe.NewUnmarshaler(cfg).UnmarshalFromDocument(doc, template)
	verifrt.Assert(err == nil, "the whole document unmarshals")
	verifrt.Known("KF-C09-marker-cut-self-append", which == 5)
	partial, err := cbe.NewUnmarshaler(cfg).UnmarshalFromDocument(doc[:cut], template)
	verifrt.Reach("cut")
	verifrt.Assert(err != nil, "a truncated document makes Unmarshal return an error")
	switch which {
	case 0, 1, 2, 5:
		verifrt.Assert(prefixOf(partial, full), "the partial result is a prefix of the full value")
	case 3, 6:
		f := full.(*P9Struct)
		p, ok := partial.(*P9Struct)
		if which == 6 {
			verifrt.Assert(ok && p != nil, "a partial struct is returned (what was decoded before the cut is not thrown away)")
			verifrt.Assert(cut < 16 || p.N == f.N, "a field decoded before the cut is present")
		}
		if partial == nil || (ok && p == nil) {
			return
		}
		verifrt.Assert(ok, "the partial result has the template's type")
		verifrt.Assert(verifrt.Or(p.N == 0, p.N == f.N), "partial struct: a field is unset or holds its value")
		verifrt.Assert(verifrt.Or(p.Z == 0, p.Z == f.Z), "partial struct: a field is unset or holds its value (last field)")
		verifrt.Assert(p.P == nil || f.P == nil || p.P.A == 0 || p.P.A == f.P.A, "partial struct: pointer field is unset or leads to its value")
		verifrt.Assert(len(p.L) <= len(f.L), "partial struct: no extra list elements")
		for i := range p.L {
			verifrt.Assert(p.L[i] == f.L[i] || (i == len(p.L)-1 && p.L[i] == ""), "partial struct: list elements present are the original ones")
		}
	case 4:
		f := full.([]string)
		p, ok := partial.([]string)
		if partial == nil {
			return
		}
		verifrt.Assert(ok && len(p) <= len(f), "the partial result has the template's type and no extra elements")
		for i := range p {
			verifrt.Assert(p[i] == f[i], "partial list: elements present are the original ones")
		}
	}
}
