//verif:package github.com/kstenerud/go-concise-encoding/internal/verifh/c12
//verif:bounds two keys in one map; integer forms PosInt/NegInt/Int/BigInt(<=2 words) with all 64-bit (128-bit) values; strings <= 3 bytes whole vs chunked (2 chunks, any split); RID; UID 16 symbolic bytes; Bool
//verif:assume NegativeInt(0) is excluded (it denotes -0.0, not an integer); times are not generated
package c12

import (
	"math/big"

	"github.com/kstenerud/go-concise-encoding/ce/events"
	"github.com/kstenerud/go-concise-encoding/configuration"
	"github.com/kstenerud/go-concise-encoding/internal/verifh"
	"github.com/kstenerud/go-concise-encoding/internal/verifrt"
	"github.com/kstenerud/go-concise-encoding/rules"
)

// intKey prepares an integer key in the chosen form; returns the sender and
// the key's sign and 128-bit magnitude (hi, lo).
func intKey(r events.DataEventReceiver, form int, tag string) (send func(), neg bool, hi, lo uint64) {
	switch form {
	case 0:
		v := verifrt.U64(tag + ".pos")
		return func() { r.OnPositiveInt(v) }, false, 0, v
	case 1:
		v := verifrt.U64(tag + ".neg")
		verifrt.Assume(v != 0)
		return func() { r.OnNegativeInt(v) }, true, 0, v
	case 2:
		v := verifrt.I64(tag + ".int")
		if v < 0 {
			return func() { r.OnInt(v) }, true, 0, uint64(-v)
		}
		return func() { r.OnInt(v) }, false, 0, uint64(v)
	default:
		// big.Int with up to two words and a sign
		w0 := verifrt.U64(tag + ".w0")
		w1 := verifrt.U64(tag + ".w1")
		if form == 3 {
			verifrt.Assume(w1 == 0)
		}
		sgn := verifrt.Bool(tag + ".sgn")
		b := new(big.Int).SetBits([]big.Word{big.Word(w0), big.Word(w1)})
		if sgn {
			b.Neg(b)
		}
		isZero := verifrt.And(w0 == 0, w1 == 0)
		return func() { r.OnBigInt(b) }, verifrt.And(sgn, !isZero), w1, w0
	}
}

func Verif_C12_IntForms() {
	f1 := verifrt.Choice("form1", 5)
	f2 := verifrt.Choice("form2", 5)
	cfg := configuration.New()
	r := rules.NewRules(&verifh.Rec{}, cfg)
	r.OnBeginDocument()
	r.OnVersion(0)
	r.OnMap()
	s1, n1, h1, l1 := intKey(r, f1, "k1")
	s2, n2, h2, l2 := intKey(r, f2, "k2")
	s1()
	r.OnNull()
	rej := verifh.Try(s2)
	same := verifrt.And(n1 == n2, h1 == h2, l1 == l2)
	verifrt.Known("KF-C12-negint", verifrt.And(same, (f1 == 1) != (f2 == 1)))
	verifrt.Reach("decided")
	verifrt.Assert(rej == same, "second integer key rejected exactly when it denotes the same value")
}

func sendString(r events.DataEventReceiver, at events.ArrayType, form int, b []byte, tag string) {
	switch form {
	case 0:
		r.OnStringlikeArray(at, string(b))
	case 1:
		r.OnArray(at, uint64(len(b)), b)
	default:
		// two chunks with an arbitrary split (may be empty on either side)
		k := verifrt.Choice(tag+".split", len(b)+1)
		r.OnArrayBegin(at)
		r.OnArrayChunk(uint64(k), true)
		if k > 0 {
			r.OnArrayData(b[:k])
		}
		r.OnArrayChunk(uint64(len(b)-k), false)
		if len(b)-k > 0 {
			r.OnArrayData(b[k:])
		}
	}
}

func asciiBytes(tag string, n int) []byte {
	b := verifrt.Bytes(tag, n)
	for _, c := range b {
		verifrt.Assume(c >= 0x20 && c < 0x7f) // keep the content valid UTF-8 text: validity is C11
	}
	return b
}

func Verif_C12_Strings() {
	n1 := verifrt.Choice("len1", 3) + 1
	n2 := verifrt.Choice("len2", 3) + 1
	f1 := verifrt.Choice("form1", 3)
	f2 := verifrt.Choice("form2", 3)
	cfg := configuration.New()
	r := rules.NewRules(&verifh.Rec{}, cfg)
	r.OnBeginDocument()
	r.OnVersion(0)
	r.OnMap()
	b1 := asciiBytes("s1", n1)
	b2 := asciiBytes("s2", n2)
	sendString(r, events.ArrayTypeString, f1, b1, "k1")
	r.OnNull()
	rej := verifh.Try(func() { sendString(r, events.ArrayTypeString, f2, b2, "k2") })
	verifrt.Reach("decided")
	verifrt.Assert(rej == verifrt.BytesEq(b1, b2), "second string key rejected exactly when the contents are equal")
}

// A string and a resource id with the same text are different keys; two equal RIDs collide.
func Verif_C12_RIDvsString() {
	t1 := verifrt.Choice("type1", 2)
	t2 := verifrt.Choice("type2", 2)
	types := []events.ArrayType{events.ArrayTypeString, events.ArrayTypeResourceID}
	cfg := configuration.New()
	r := rules.NewRules(&verifh.Rec{}, cfg)
	r.OnBeginDocument()
	r.OnVersion(0)
	r.OnMap()
	b1 := asciiBytes("s1", 2)
	b2 := asciiBytes("s2", 2)
	sendString(r, types[t1], verifrt.Choice("form1", 3), b1, "k1")
	r.OnNull()
	rej := verifh.Try(func() { sendString(r, types[t2], verifrt.Choice("form2", 3), b2, "k2") })
	verifrt.Reach("decided")
	verifrt.Assert(rej == verifrt.And(t1 == t2, verifrt.BytesEq(b1, b2)), "resource ids and strings are distinct key kinds")
}

func Verif_C12_UIDBool() {
	kind := verifrt.Choice("kind", 2)
	cfg := configuration.New()
	r := rules.NewRules(&verifh.Rec{}, cfg)
	r.OnBeginDocument()
	r.OnVersion(0)
	r.OnMap()
	var same bool
	var rej bool
	if kind == 0 {
		u1 := verifrt.Bytes("u1", 16)
		u2 := verifrt.Bytes("u2", 16)
		r.OnUID(u1)
		r.OnNull()
		rej = verifh.Try(func() { r.OnUID(u2) })
		same = verifrt.BytesEq(u1, u2)
	} else {
		b1 := verifrt.Bool("b1")
		b2 := verifrt.Bool("b2")
		r.OnBoolean(b1)
		r.OnNull()
		rej = verifh.Try(func() { r.OnBoolean(b2) })
		same = b1 == b2
	}
	verifrt.Reach("decided")
	verifrt.Assert(rej == same, "second UID/bool key rejected exactly when equal")
}

// Keys of a record type are subject to the same rule.
func Verif_C12_RecordType() {
	f1 := verifrt.Choice("form1", 3)
	f2 := verifrt.Choice("form2", 3)
	cfg := configuration.New()
	r := rules.NewRules(&verifh.Rec{}, cfg)
	r.OnBeginDocument()
	r.OnVersion(0)
	r.OnRecordType([]byte("t"))
	s1, n1, h1, l1 := intKey(r, f1, "k1")
	s2, n2, h2, l2 := intKey(r, f2, "k2")
	s1()
	rej := verifh.Try(s2)
	same := verifrt.And(n1 == n2, h1 == h2, l1 == l2)
	verifrt.Known("KF-C12-negint", verifrt.And(same, (f1 == 1) != (f2 == 1)))
	verifrt.Reach("decided")
	verifrt.Assert(rej == same, "second record-type key rejected exactly when it denotes the same value")
}
