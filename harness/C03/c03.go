//verif:package github.com/kstenerud/go-concise-encoding/internal/verifh/c03
//verif:config cap=300 steps=400000000 paths=20000 timeout=120000 maxsec=1800
//verif:bounds conversions through the real codecs (CBE decoder, CTE encoder, CTE decoder = ANTLR lexer/parser/listener executed by the engine, CBE encoder), each behind the real validator. CBE->CTE->CBE: CBE documents of 13 templates with an 8-bit symbolic payload (quick: 10 boundary values, thorough: 72 values around the boundaries) - integers, strings with a character of a 12-character set, typed arrays, nested containers, markers/references, records, nodes, edges, media and custom binary whole and in two chunks, UID, NaN, floats, times - and (thorough) raw CBE documents that the CBE decoder accepts: signature+version+1 symbolic byte, and a list holding 1 symbolic byte. CTE->CBE: 8 CTE text templates (comments, all container kinds, typed arrays in the 3 bases, escapes, markers, records) with one symbolic digit or letter
//verif:assume every symbolic character reaches the lexer's table lookups, where the engine enumerates its feasible values (one path per value), so the bounds are small; custom text is excluded from CTE->CBE as the statement says; area/location time zones are not generated; "the same data": integers by value, arrays joined, padding and (towards CBE) comments dropped
package c03

import (
	compact_float "github.com/kstenerud/go-compact-float"
	compact_time "github.com/kstenerud/go-compact-time"
	"github.com/kstenerud/go-concise-encoding/cbe"
	"github.com/kstenerud/go-concise-encoding/ce/events"
	"github.com/kstenerud/go-concise-encoding/configuration"
	"github.com/kstenerud/go-concise-encoding/cte"
	"github.com/kstenerud/go-concise-encoding/internal/verifh"
	"github.com/kstenerud/go-concise-encoding/internal/verifrt"
	"github.com/kstenerud/go-concise-encoding/rules"
)

func sameEvent(s, g verifh.Ev) bool {
	okS, negS, magS := verifh.IntValue(s)
	okG, negG, magG := verifh.IntValue(g)
	if okS || okG {
		return verifrt.And(okS, okG, magS == magG, verifrt.Or(negS == negG, magS == 0))
	}
	if s.K == verifh.KTime && g.K == verifh.KTime {
		return s.T.IsEquivalentTo(g.T)
	}
	if s.K == verifh.KDecimalFloat && g.K == verifh.KDecimalFloat {
		return verifrt.And(s.U == g.U, s.U2 == g.U2)
	}
	return verifrt.And(s.K == g.K, s.U == g.U, s.U2 == g.U2, s.B == g.B, verifrt.BytesEq(s.S, g.S), verifrt.BytesEq(s.S2, g.S2))
}

// normalize joins chunked arrays, turns whole string-like events into array
// events, drops padding and (optionally) comments.
func normalize(in []verifh.Ev, dropComments bool) []verifh.Ev {
	var out []verifh.Ev
	for i := 0; i < len(in); i++ {
		e := in[i]
		switch e.K {
		case verifh.KPadding:
		case verifh.KComment:
			if !dropComments {
				out = append(out, e)
			}
		case verifh.KStringArray:
			out = append(out, verifh.Ev{K: verifh.KArray, U: e.U, U2: uint64(len(e.S)), S: e.S})
		case verifh.KArrayBegin:
			acc := verifh.Ev{K: verifh.KArray, U: e.U}
			for i+1 < len(in) && (in[i+1].K == verifh.KArrayChunk || in[i+1].K == verifh.KArrayData) {
				i++
				if in[i].K == verifh.KArrayChunk {
					acc.U2 += in[i].U
				} else {
					acc.S = append(acc.S, in[i].S...)
				}
			}
			out = append(out, acc)
		case verifh.KMediaBegin, verifh.KCustomBegin:
			acc := verifh.Ev{K: verifh.KMedia, S2: e.S2}
			if e.K == verifh.KCustomBegin {
				acc = verifh.Ev{K: verifh.KCustomBinary, U: e.U2}
				if e.U == uint64(events.ArrayTypeCustomText) {
					acc.K = verifh.KCustomText
				}
			}
			for i+1 < len(in) && (in[i+1].K == verifh.KArrayChunk || in[i+1].K == verifh.KArrayData) {
				i++
				if in[i].K == verifh.KArrayData {
					acc.S = append(acc.S, in[i].S...)
				}
			}
			out = append(out, acc)
		default:
			out = append(out, e)
		}
	}
	return out
}

func sameStream(a, b []verifh.Ev, dropComments bool, what string) {
	x, y := normalize(a, dropComments), normalize(b, dropComments)
	verifrt.Assert(len(x) == len(y), what+": same number of events")
	if len(x) != len(y) {
		return
	}
	ok := true
	for i := range x {
		ok = verifrt.And(ok, sameEvent(x[i], y[i]))
	}
	verifrt.Assert(ok, what+": same data")
}

// cbeToCTEToCBE converts an accepted CBE document to CTE and back.
func cbeToCTEToCBE(docCBE []byte) {
	cfg := configuration.New()
	fromCBE := &verifh.Rec{}
	if cbe.NewDecoder(cfg).DecodeDocument(docCBE, rules.NewRules(fromCBE, cfg)) != nil {
		verifrt.Assume(false) // only documents the CBE decoder and the validator accept
	}
	// CBE -> CTE
	text := &verifh.Sink{}
	encT := cte.NewEncoder(cfg)
	encT.PrepareToEncode(text)
	errConv := cbe.NewDecoder(cfg).DecodeDocument(docCBE, rules.NewRules(encT, cfg))
	verifrt.Reach("converted-to-cte")
	verifrt.Assert(errConv == nil, "an accepted CBE document converts through the CTE encoder")
	// the CTE decoder accepts it and sees the same data
	fromCTE := &verifh.Rec{}
	errT := cte.NewDecoder(cfg).DecodeDocument(text.Buf, rules.NewRules(fromCTE, cfg))
	verifrt.Assert(errT == nil, "the converted CTE document is accepted by the CTE decoder and the validator")
	if errT != nil {
		return
	}
	sameStream(fromCBE.Evs, fromCTE.Evs, false, "CBE -> CTE")
	// CTE -> CBE again
	back := &verifh.Sink{}
	encB := cbe.NewEncoder(cfg)
	encB.PrepareToEncode(back)
	errB := cte.NewDecoder(cfg).DecodeDocument(text.Buf, rules.NewRules(encB, cfg))
	verifrt.Assert(errB == nil, "the CTE document converts back through the CBE encoder")
	again := &verifh.Rec{}
	errA := cbe.NewDecoder(cfg).DecodeDocument(back.Buf, rules.NewRules(again, cfg))
	verifrt.Reach("converted-back")
	verifrt.Assert(errA == nil, "the CBE document converted back is accepted")
	if errA == nil {
		sameStream(fromCBE.Evs, again.Evs, false, "CBE -> CTE -> CBE")
	}
}

func encodeCBE(send func(r events.DataEventReceiver)) []byte {
	cfg := configuration.New()
	if verifh.Try(func() { send(rules.NewRules(&verifh.Rec{}, cfg)) }) {
		verifrt.Assume(false)
	}
	sink := &verifh.Sink{}
	enc := cbe.NewEncoder(cfg)
	enc.PrepareToEncode(sink)
	send(enc)
	return sink.Buf
}

var chars = []string{"a", " ", "\"", "\\", "\n", "\t", "/", "*", "|", "@", "é", "€"}

func Verif_C03_CBEDocuments() {
	which := verifrt.Choice("template", 13)
	v := uint64(verifrt.U8("v"))
	if !verifrt.Thorough() {
		verifrt.Assume(v < 3 || v == 9 || v == 10 || v == 99 || v == 100 || v == 127 || v == 128 || v >= 254)
	} else {
		verifrt.Assume(v < 24 || (v >= 96 && v < 136) || v >= 248) // thorough: 72 values around every digit-count and sign boundary
	}
	c := ""
	timeVariant := 0
	switch which {
	case 1:
		c = chars[verifrt.Choice("char", len(chars))]
		verifrt.Assume(v == 0)
	case 10:
		timeVariant = verifrt.Choice("timeVariant", 3)
		verifrt.Assume(v == 0)
	}
	doc := encodeCBE(func(r events.DataEventReceiver) {
		r.OnBeginDocument()
		r.OnVersion(0)
		switch which {
		case 0:
			r.OnList()
			r.OnPositiveInt(v)
			r.OnNegativeInt(v + 1)
			r.OnEndContainer()
		case 1:
			r.OnMap()
			r.OnStringlikeArray(events.ArrayTypeString, "k"+c)
			r.OnStringlikeArray(events.ArrayTypeResourceID, "r:"+c)
			r.OnEndContainer()
		case 2:
			r.OnList()
			r.OnArray(events.ArrayTypeUint8, 2, []byte{byte(v), 7})
			r.OnArray(events.ArrayTypeInt16, 1, []byte{byte(v), 0x80})
			r.OnArray(events.ArrayTypeBit, 9, []byte{byte(v), 1})
			r.OnEndContainer()
		case 3:
			r.OnList()
			r.OnList()
			r.OnMap()
			r.OnPositiveInt(v)
			r.OnList()
			r.OnEndContainer()
			r.OnEndContainer()
			r.OnEndContainer()
			r.OnNull()
			r.OnPadding()
			r.OnTrue()
			r.OnEndContainer()
		case 4:
			r.OnList()
			r.OnMarker([]byte("a1"))
			r.OnMap()
			r.OnPositiveInt(v)
			r.OnFalse()
			r.OnEndContainer()
			r.OnReferenceLocal([]byte("a1"))
			r.OnReferenceLocal([]byte("fwd"))
			r.OnMarker([]byte("fwd"))
			r.OnStringlikeArray(events.ArrayTypeString, "s")
			r.OnEndContainer()
		case 5:
			r.OnRecordType([]byte("rt"))
			r.OnStringlikeArray(events.ArrayTypeString, "k1")
			r.OnPositiveInt(2)
			r.OnEndContainer()
			r.OnList()
			r.OnRecord([]byte("rt"))
			r.OnPositiveInt(v)
			r.OnNull()
			r.OnEndContainer()
			r.OnEndContainer()
		case 6:
			r.OnNode()
			r.OnPositiveInt(v)
			r.OnNode()
			r.OnNull()
			r.OnEndContainer()
			r.OnStringlikeArray(events.ArrayTypeString, "leaf")
			r.OnEndContainer()
		case 7:
			r.OnEdge()
			r.OnPositiveInt(v)
			r.OnStringlikeArray(events.ArrayTypeResourceID, "http://x.y/z")
			r.OnStringlikeArray(events.ArrayTypeString, "dst")
			r.OnEndContainer()
		case 8:
			r.OnList()
			r.OnMedia("text/x", []byte{1, byte(v), 3})
			r.OnCustomBinary(v, []byte{byte(v), 0xff})
			r.OnUID([]byte{0, 1, 2, 3, 4, 5, 6, 7, 8, 9, 10, 11, 12, 13, 14, byte(v)})
			r.OnEndContainer()
		case 9:
			r.OnList()
			r.OnNan(v&1 == 1)
			r.OnFloat(1.5)
			r.OnFloat(-0.015625)
			r.OnDecimalFloat(compact_float.DFloatValue(-2, int64(v)*10+1))
			r.OnBoolean(v&2 == 2)
			r.OnEndContainer()
		case 10:
			k := timeVariant
			r.OnList()
			r.OnTime(compact_time.NewDate([]int{2000, -45, 12345}[k], 2, 28))
			r.OnTime(compact_time.NewTime(23, 59, 7*k, 500000000*(k%2), compact_time.TZAtLatLong(1234-1300*k, -99*k)))
			r.OnTime(compact_time.NewTimestamp(1999, 12, 31, 0, 0, k, 0, compact_time.TZAtUTC()))
			r.OnTime(compact_time.NewTime(1, 2, 3, 0, compact_time.TZWithMiutesOffsetFromUTC(-90*k)))
			r.OnEndContainer()
		case 12: // media and custom binary delivered in two non-empty chunks
			r.OnList()
			r.OnMediaBegin("a/b")
			r.OnArrayChunk(2, true)
			r.OnArrayData([]byte{1, byte(v)})
			r.OnArrayChunk(1, false)
			r.OnArrayData([]byte{3})
			r.OnCustomBegin(events.ArrayTypeCustomBinary, 5)
			r.OnArrayChunk(1, true)
			r.OnArrayData([]byte{byte(v)})
			r.OnArrayChunk(2, false)
			r.OnArrayData([]byte{0xb2, 0xc3})
			r.OnEndContainer()
		case 11:
			r.OnMap()
			r.OnNegativeInt(v + 1)
			r.OnArrayBegin(events.ArrayTypeString)
			r.OnArrayChunk(2, true)
			r.OnArrayData([]byte("ab"))
			r.OnArrayChunk(1, false)
			r.OnArrayData([]byte("c"))
			r.OnUID([]byte{byte(v), 1, 2, 3, 4, 5, 6, 7, 8, 9, 10, 11, 12, 13, 14, 15})
			r.OnArray(events.ArrayTypeFloat32, 1, []byte{0, 0, 0xc0, 0x3f})
			r.OnEndContainer()
		}
		r.OnEndDocument()
	})
	cbeToCTEToCBE(doc)
}

// Raw CBE documents: signature, version, then 1..2 fully symbolic bytes; those
// the CBE decoder and the validator accept must convert. Thorough tier only.
func Verif_T_C03_RawCBEDocuments() {
	// one free byte (every one-byte value: small integers, null, booleans, empty
	// containers...) and two free bytes where the first opens a list (0x9a): each
	// accepted document costs three ANTLR parses
	d := verifrt.Bytes("d", 2)
	doc := []byte{0x81, 0x00, d[0]}
	if verifrt.Choice("bytes", 2) == 1 {
		verifrt.Assume(d[0] == 0x9a)
		doc = append(doc, d[1], 0x9b)
	}
	cbeToCTEToCBE(doc)
}

var texts = []string{
	"c0\n[1 /* c */ 2 // line\n #]",
	"c0\n{\"k\" = # \"\\n\\[e9]\" = -#}",
	"c0\n[@u8x[0# ff] @u8b[1#1] @i16o[-1# 7] @u16[#0 65535]]",
	"c0\n[&m#:[true] $m# null]",
	"c0\n@r#<\"a\" 2> [@r#{1 2}]",
	"c0\n(1# (2) \"x\")",
	"c0\n[0x1# -0b1# 0o7# 1_0#0]",
	"c0\n[@t/x[0# ff] 00010203-0405-0607-0809-0a0b0c0d0e0# @#7[01 ff]]",
}

// CTE -> CBE: a CTE document (one digit of its text symbolic, marked # below)
// that the CTE decoder accepts converts to an accepted CBE document with the
// same data apart from comments.
func Verif_C03_CTEDocuments() {
	k := verifrt.Choice("text", len(texts))
	d := verifrt.U8("digit")
	if k == 2 || k == 6 {
		verifrt.Assume(d == '0' || d == '1') // valid in every base used there
	} else {
		verifrt.Assume(d >= '0' && d <= '9')
	}
	text := []byte(texts[k])
	for i, c := range text {
		if c == '#' {
			text[i] = d
		}
	}
	cfg := configuration.New()
	fromCTE := &verifh.Rec{}
	if cte.NewDecoder(cfg).DecodeDocument(text, rules.NewRules(fromCTE, cfg)) != nil {
		verifrt.Assume(false)
	}
	verifrt.Reach("accepted-cte")
	switch k { // every template must be accepted for some digit (labels are literals so that the vacuity guard counts them)
	case 0:
		verifrt.Reach("text0")
	case 1:
		verifrt.Reach("text1")
	case 2:
		verifrt.Reach("text2")
	case 3:
		verifrt.Reach("text3")
	case 4:
		verifrt.Reach("text4")
	case 5:
		verifrt.Reach("text5")
	case 6:
		verifrt.Reach("text6")
	case 7:
		verifrt.Reach("text7")
	}
	doc := &verifh.Sink{}
	enc := cbe.NewEncoder(cfg)
	enc.PrepareToEncode(doc)
	errConv := cte.NewDecoder(cfg).DecodeDocument(text, rules.NewRules(enc, cfg))
	verifrt.Assert(errConv == nil, "an accepted CTE document converts through the CBE encoder")
	fromCBE := &verifh.Rec{}
	errB := cbe.NewDecoder(cfg).DecodeDocument(doc.Buf, rules.NewRules(fromCBE, cfg))
	verifrt.Reach("converted-to-cbe")
	verifrt.Assert(errB == nil, "the converted CBE document is accepted by the CBE decoder and the validator")
	if errB == nil {
		sameStream(fromCTE.Evs, fromCBE.Evs, true, "CTE -> CBE")
	}
}
