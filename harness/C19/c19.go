//verif:package github.com/kstenerud/go-concise-encoding/builder
//verif:bounds source values: all 2^64 integers / float bit patterns, big.Int of <= 2 words with sign; destinations: int8/16/32/64, uint8/16/32/64, float32/64, big.Int, *big.Int
//verif:assume destinations are written through an emulated reflect.Value whose SetInt/SetUint/SetFloat truncate/round to the destination kind as package reflect does; big.Float / DFloat / apd.Decimal sources (decimal text paths) are outside reach
package builder

import (
	"math"
	"math/big"
	"reflect"

	"github.com/kstenerud/go-concise-encoding/conversions"
	"github.com/kstenerud/go-concise-encoding/internal/verifh"
	"github.com/kstenerud/go-concise-encoding/internal/verifrt"
)

// floatAsInt: is the float64 with these bits an integer of magnitude < 2^64?
// Pure bit arithmetic; shares nothing with the conversions under test.
func floatAsInt(bits uint64) (ok bool, neg bool, mag uint64) {
	e := (bits >> 52) & 0x7ff
	m := bits & (1<<52 - 1)
	neg = bits>>63 != 0
	if e == 0 {
		return m == 0, neg, 0
	}
	if e == 0x7ff {
		return false, neg, 0
	}
	if e < 1023 {
		return false, neg, 0
	}
	E := e - 1023
	sig := m | 1<<52
	if E <= 52 {
		sh := 52 - E
		if sig&(uint64(1)<<sh-1) != 0 {
			return false, neg, 0
		}
		return true, neg, sig >> sh
	}
	if E <= 63 {
		return true, neg, sig << (E - 52)
	}
	return false, neg, 0
}

func intDst(kind int) (reflect.Value, func() int64) {
	switch kind {
	case 0:
		var d int8
		return reflect.ValueOf(&d).Elem(), func() int64 { return int64(d) }
	case 1:
		var d int16
		return reflect.ValueOf(&d).Elem(), func() int64 { return int64(d) }
	case 2:
		var d int32
		return reflect.ValueOf(&d).Elem(), func() int64 { return int64(d) }
	}
	var d int64
	return reflect.ValueOf(&d).Elem(), func() int64 { return d }
}

func uintDst(kind int) (reflect.Value, func() uint64) {
	switch kind {
	case 0:
		var d uint8
		return reflect.ValueOf(&d).Elem(), func() uint64 { return uint64(d) }
	case 1:
		var d uint16
		return reflect.ValueOf(&d).Elem(), func() uint64 { return uint64(d) }
	case 2:
		var d uint32
		return reflect.ValueOf(&d).Elem(), func() uint64 { return uint64(d) }
	}
	var d uint64
	return reflect.ValueOf(&d).Elem(), func() uint64 { return d }
}

// signMag of a stored int64
func signMag(s int64) (bool, uint64) {
	if s < 0 {
		return true, uint64(-s)
	}
	return false, uint64(s)
}

func Verif_C19_IntFromFloat() {
	bits := verifrt.U64("bits")
	dst, get := intDst(verifrt.Choice("dst", 4))
	panicked := verifh.Try(func() { setIntFromFloat(math.Float64frombits(bits), dst) })
	if panicked {
		verifrt.Reach("rejected")
		return
	}
	verifrt.Reach("stored")
	ok, neg, mag := floatAsInt(bits)
	sneg, smag := signMag(get())
	verifrt.Assert(ok, "a float stored into an integer is integral")
	verifrt.Assert(verifrt.And(smag == mag, verifrt.Or(mag == 0, sneg == neg)), "integer destination holds exactly the float's value")
}

func Verif_C19_UintFromFloat() {
	bits := verifrt.U64("bits")
	dst, get := uintDst(verifrt.Choice("dst", 4))
	panicked := verifh.Try(func() { setUintFromFloat(math.Float64frombits(bits), dst) })
	if panicked {
		verifrt.Reach("rejected")
		return
	}
	verifrt.Reach("stored")
	ok, neg, mag := floatAsInt(bits)
	verifrt.Assert(ok, "a float stored into an unsigned integer is integral")
	verifrt.Assert(verifrt.And(get() == mag, verifrt.Or(mag == 0, !neg)), "unsigned destination holds exactly the float's value")
}

func floatDst(kind int) (reflect.Value, func() uint64) {
	if kind == 0 {
		var d float32
		return reflect.ValueOf(&d).Elem(), func() uint64 { return math.Float64bits(float64(d)) }
	}
	var d float64
	return reflect.ValueOf(&d).Elem(), func() uint64 { return math.Float64bits(d) }
}

func Verif_C19_FloatFromInt() {
	v := verifrt.I64("v")
	dst, get := floatDst(verifrt.Choice("dst", 2))
	panicked := verifh.Try(func() { setFloatFromInt(v, dst) })
	if panicked {
		verifrt.Reach("rejected")
		return
	}
	verifrt.Reach("stored")
	ok, neg, mag := floatAsInt(get())
	vneg, vmag := signMag(v)
	verifrt.Assert(ok, "float destination holds an integer")
	verifrt.Assert(verifrt.And(mag == vmag, verifrt.Or(mag == 0, neg == vneg)), "float destination holds exactly the integer")
}

func Verif_C19_FloatFromUint() {
	v := verifrt.U64("v")
	dst, get := floatDst(verifrt.Choice("dst", 2))
	panicked := verifh.Try(func() { setFloatFromUint(v, dst) })
	if panicked {
		verifrt.Reach("rejected")
		return
	}
	verifrt.Reach("stored")
	ok, neg, mag := floatAsInt(get())
	verifrt.Assert(ok, "float destination holds an integer")
	verifrt.Assert(verifrt.And(mag == v, verifrt.Or(mag == 0, !neg)), "float destination holds exactly the unsigned integer")
}

func Verif_C19_IntWidths() {
	which := verifrt.Choice("conv", 4)
	kind := verifrt.Choice("dst", 4)
	u := verifrt.U64("v")
	switch which {
	case 0: // int <- int
		dst, get := intDst(kind)
		if verifh.Try(func() { setIntFromInt(int64(u), dst) }) {
			verifrt.Reach("rejected")
			return
		}
		verifrt.Assert(get() == int64(u), "int destination holds exactly the int")
	case 1: // int <- uint
		dst, get := intDst(kind)
		if verifh.Try(func() { setIntFromUint(u, dst) }) {
			verifrt.Reach("rejected")
			return
		}
		verifrt.Assert(verifrt.And(get() >= 0, uint64(get()) == u), "int destination holds exactly the uint")
	case 2: // uint <- int
		dst, get := uintDst(kind)
		if verifh.Try(func() { setUintFromInt(int64(u), dst) }) {
			verifrt.Reach("rejected")
			return
		}
		verifrt.Assert(verifrt.And(int64(u) >= 0, get() == u), "uint destination holds exactly the int")
	case 3: // uint <- uint
		dst, get := uintDst(kind)
		if verifh.Try(func() { setUintFromUint(u, dst) }) {
			verifrt.Reach("rejected")
			return
		}
		verifrt.Assert(get() == u, "uint destination holds exactly the uint")
	}
	verifrt.Reach("stored")
}

func symBig(tag string) (b *big.Int, neg bool, hi, lo uint64) {
	w0, w1 := verifrt.U64(tag+".w0"), verifrt.U64(tag+".w1")
	sgn := verifrt.Bool(tag + ".neg")
	b = new(big.Int).SetBits([]big.Word{big.Word(w0), big.Word(w1)})
	if sgn {
		b.Neg(b)
	}
	return b, verifrt.And(sgn, verifrt.Or(w0 != 0, w1 != 0)), w1, w0
}

func Verif_C19_IntFromBigInt() {
	b, neg, hi, lo := symBig("b")
	signed := verifrt.Choice("signed", 2) == 0
	kind := verifrt.Choice("dst", 4)
	if signed {
		dst, get := intDst(kind)
		if verifh.Try(func() { setIntFromBigInt(b, dst) }) {
			verifrt.Reach("rejected")
			return
		}
		sneg, smag := signMag(get())
		verifrt.Assert(verifrt.And(hi == 0, smag == lo, verifrt.Or(lo == 0, sneg == neg)), "int destination holds exactly the big integer")
	} else {
		dst, get := uintDst(kind)
		if verifh.Try(func() { setUintFromBigInt(b, dst) }) {
			verifrt.Reach("rejected")
			return
		}
		verifrt.Assert(verifrt.And(hi == 0, get() == lo, verifrt.Or(lo == 0, !neg)), "uint destination holds exactly the big integer")
	}
	verifrt.Reach("stored")
}

// big.Int destinations from unsigned integers.
func Verif_C19_BigIntFromUint() {
	v := verifrt.U64("v")
	which := verifrt.Choice("dst", 3)
	var got *big.Int
	switch which {
	case 0:
		got = conversions.UintToBigInt(v)
	case 1:
		var d big.Int
		setBigIntFromUint(v, reflect.ValueOf(&d).Elem())
		got = &d
	case 2:
		var d *big.Int
		setPBigIntFromUint(v, reflect.ValueOf(&d).Elem())
		got = d
	}
	verifrt.Reach("stored")
	verifrt.Known("KF-C19-uint-to-bigint-lowbit", verifrt.And(v > 0x7fffffffffffffff, v&1 == 1))
	verifrt.Assert(got.Sign() >= 0 && got.IsUint64(), "big integer destination is a non-negative 64-bit value")
	verifrt.Assert(got.Uint64() == v, "big integer destination holds exactly the unsigned integer")
}

// The event receiver turns NegativeInt(magnitude) into what the builders see.
func Verif_C19_NegativeIntEvent() {
	v := verifrt.U64("magnitude")
	verifrt.Assume(v != 0)
	sink := &verifSink{}
	verifReceiver(sink).OnNegativeInt(v)
	verifrt.Reach("delivered")
	verifrt.Assert(sink.calls == 1, "one value delivered")
	verifrt.Known("KF-C19-negint-sign-lost", v > 0x7fffffffffffffff)
	switch sink.kind {
	case "int":
		neg, mag := signMag(sink.i)
		verifrt.Assert(verifrt.And(neg, mag == v), "builder receives -magnitude")
	case "bigint":
		verifrt.Assert(sink.bi.Sign() < 0, "builder receives a negative big integer")
		abs := new(big.Int).Abs(sink.bi)
		verifrt.Assert(abs.IsUint64() && abs.Uint64() == v, "builder receives the right magnitude")
	default:
		verifrt.Assert(false, "negative integer delivered as an integer")
	}
}
