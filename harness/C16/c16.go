//verif:package github.com/kstenerud/go-concise-encoding/internal/verifh/c16
//verif:config cap=300 maxsec=1800
//verif:bounds histories of two or three documents on one instance; the earlier documents are templates (valid, aborted at any event index, invalid); the last is a template with symbolic payload; MaxDocumentSizeBytes / MaxObjectCount / MaxContainerDepth symbolic
//verif:assume "same error" = same nil-ness
package c16

import (
	"github.com/kstenerud/go-concise-encoding/cbe"
	"github.com/kstenerud/go-concise-encoding/ce/events"
	"github.com/kstenerud/go-concise-encoding/configuration"
	"github.com/kstenerud/go-concise-encoding/cte"
	"github.com/kstenerud/go-concise-encoding/internal/verifh"
	"github.com/kstenerud/go-concise-encoding/internal/verifrt"
	"github.com/kstenerud/go-concise-encoding/rules"
)

// docA plays document number k; abort = number of events to send (-1 = all).
// The documents exercise every piece of per-document state: containers, open
// arrays, markers, forward references, record types, map keys.
const numDocA = 7

func docAEvents(k int) []func(r events.DataEventReceiver) {
	b := func(r events.DataEventReceiver) { r.OnBeginDocument() }
	v := func(r events.DataEventReceiver) { r.OnVersion(0) }
	e := func(r events.DataEventReceiver) { r.OnEndDocument() }
	switch k {
	case 0: // nested containers
		return []func(events.DataEventReceiver){b, v,
			func(r events.DataEventReceiver) { r.OnList() },
			func(r events.DataEventReceiver) { r.OnMap() },
			func(r events.DataEventReceiver) { r.OnPositiveInt(1) },
			func(r events.DataEventReceiver) { r.OnNull() },
			func(r events.DataEventReceiver) { r.OnEndContainer() },
			func(r events.DataEventReceiver) { r.OnEndContainer() }, e}
	case 1: // chunked typed array
		return []func(events.DataEventReceiver){b, v,
			func(r events.DataEventReceiver) { r.OnArrayBegin(events.ArrayTypeUint16) },
			func(r events.DataEventReceiver) { r.OnArrayChunk(2, true) },
			func(r events.DataEventReceiver) { r.OnArrayData([]byte{1, 2, 3}) },
			func(r events.DataEventReceiver) { r.OnArrayData([]byte{4}) },
			func(r events.DataEventReceiver) { r.OnArrayChunk(0, false) }, e}
	case 2: // chunked string with a split character
		return []func(events.DataEventReceiver){b, v,
			func(r events.DataEventReceiver) { r.OnArrayBegin(events.ArrayTypeString) },
			func(r events.DataEventReceiver) { r.OnArrayChunk(2, false) },
			func(r events.DataEventReceiver) { r.OnArrayData([]byte{0xc3}) },
			func(r events.DataEventReceiver) { r.OnArrayData([]byte{0xa9}) }, e}
	case 3: // marker and references (one forward)
		return []func(events.DataEventReceiver){b, v,
			func(r events.DataEventReceiver) { r.OnList() },
			func(r events.DataEventReceiver) { r.OnReferenceLocal([]byte("m")) },
			func(r events.DataEventReceiver) { r.OnMarker([]byte("m")) },
			func(r events.DataEventReceiver) { r.OnPositiveInt(5) },
			func(r events.DataEventReceiver) { r.OnEndContainer() }, e}
	case 4: // record type and record
		return []func(events.DataEventReceiver){b, v,
			func(r events.DataEventReceiver) { r.OnRecordType([]byte("t")) },
			func(r events.DataEventReceiver) { r.OnPositiveInt(1) },
			func(r events.DataEventReceiver) { r.OnEndContainer() },
			func(r events.DataEventReceiver) { r.OnRecord([]byte("t")) },
			func(r events.DataEventReceiver) { r.OnNull() },
			func(r events.DataEventReceiver) { r.OnEndContainer() }, e}
	case 5: // invalid: duplicate key
		return []func(events.DataEventReceiver){b, v,
			func(r events.DataEventReceiver) { r.OnMap() },
			func(r events.DataEventReceiver) { r.OnPositiveInt(1) },
			func(r events.DataEventReceiver) { r.OnNull() },
			func(r events.DataEventReceiver) { r.OnPositiveInt(1) }, e}
	default: // media
		return []func(events.DataEventReceiver){b, v,
			func(r events.DataEventReceiver) { r.OnMediaBegin("a/b") },
			func(r events.DataEventReceiver) { r.OnArrayChunk(1, false) },
			func(r events.DataEventReceiver) { r.OnArrayData([]byte{9}) }, e}
	}
}

// playA sends the first n events of document k, stopping at the first rejection.
func playA(r events.DataEventReceiver, k, n int) {
	evs := docAEvents(k)
	verifh.Try(func() {
		for i := 0; i < n && i < len(evs); i++ {
			evs[i](r)
		}
	})
}

// docB is the document whose treatment must not depend on history. It reuses
// the identifiers of docA on purpose.
const numDocB = 5

func docB(r events.DataEventReceiver, k int, v uint64) {
	r.OnBeginDocument()
	r.OnVersion(0)
	switch k {
	case 0:
		r.OnList()
		r.OnPositiveInt(v)
		r.OnEndContainer()
	case 1:
		r.OnList()
		r.OnMarker([]byte("m"))
		r.OnPositiveInt(v)
		r.OnReferenceLocal([]byte("m"))
		r.OnEndContainer()
	case 2: // uses record type "t" without defining it: must be rejected
		r.OnRecord([]byte("t"))
		r.OnNull()
		r.OnEndContainer()
	case 3:
		r.OnMap()
		r.OnPositiveInt(1)
		r.OnPositiveInt(v)
		r.OnEndContainer()
	case 4:
		r.OnStringlikeArray(events.ArrayTypeString, "ab")
	}
	r.OnEndDocument()
}

func sameEvents(a, b *verifh.Rec) bool {
	if len(a.Evs) != len(b.Evs) {
		return false
	}
	ok := true
	for i := range a.Evs {
		x, y := a.Evs[i], b.Evs[i]
		ok = verifrt.And(ok, x.K == y.K, x.U == y.U, x.U2 == y.U2, x.B == y.B, verifrt.BytesEq(x.S, y.S))
	}
	return ok
}

func Verif_C16_RulesReset() {
	ka := verifrt.Choice("docA", numDocA)
	na := verifrt.Choice("eventsOfA", 10)
	kb := verifrt.Choice("docB", numDocB)
	v := verifrt.U64("v")
	maxObj := verifrt.U64("MaxObjectCount")
	maxDepth := verifrt.U64("MaxContainerDepth")
	cfg := configuration.New()
	cfg.Rules.MaxObjectCount = maxObj
	cfg.Rules.MaxContainerDepth = maxDepth

	recUsed := &verifh.Rec{}
	used := rules.NewRules(recUsed, cfg)
	playA(used, ka, na)
	used.Reset()
	recUsed.Evs = nil
	rejUsed := verifh.Try(func() { docB(used, kb, v) })

	recFresh := &verifh.Rec{}
	fresh := rules.NewRules(recFresh, cfg)
	rejFresh := verifh.Try(func() { docB(fresh, kb, v) })

	verifrt.Reach("compared")
	verifrt.Assert(rejUsed == rejFresh, "reset validator gives the same verdict as a fresh one")
	verifrt.Assert(sameEvents(recUsed, recFresh), "reset validator forwards the same events as a fresh one")
}

// encodeA runs (part of) a document through a CBE encoder, ignoring failures.
func encodeDoc(enc *cbe.Encoder, f func(r events.DataEventReceiver)) []byte {
	sink := &verifh.Sink{}
	enc.PrepareToEncode(sink)
	verifh.Try(func() { f(enc) })
	return sink.Buf
}

func Verif_C16_CBEEncoderReuse() {
	ka := verifrt.Choice("docA", numDocA)
	na := verifrt.Choice("eventsOfA", 10)
	kb := verifrt.Choice("docB", numDocB)
	verifrt.Assume(kb != 2) // the encoder itself does not validate record references
	v := verifrt.U64("v")
	cfg := configuration.New()
	used := cbe.NewEncoder(cfg)
	encodeDoc(used, func(r events.DataEventReceiver) { playA(r, ka, na) })
	outUsed := encodeDoc(used, func(r events.DataEventReceiver) { docB(r, kb, v) })
	outFresh := encodeDoc(cbe.NewEncoder(cfg), func(r events.DataEventReceiver) { docB(r, kb, v) })
	verifrt.Reach("compared")
	verifrt.Known("KF-C16-encoder-array-flag", verifrt.And(ka == 1 || ka == 2, len(outUsed) != len(outFresh)))
	verifrt.Assert(len(outUsed) == len(outFresh), "reused CBE encoder writes as many bytes as a fresh one")
	verifrt.Assert(verifrt.BytesEq(outUsed, outFresh), "reused CBE encoder writes the same bytes as a fresh one")
}

func Verif_C16_CBEDecoderReuse() {
	limit := verifrt.U64("MaxDocumentSizeBytes")
	nPrev := verifrt.Choice("previousDocs", 3)
	kb := verifrt.Choice("docB", numDocB)
	verifrt.Assume(kb != 2)
	v := verifrt.U64("v")
	cut := verifrt.Choice("cutPrev", 4) // previous documents optionally truncated
	base := configuration.New()
	docPrev := encodeDoc(cbe.NewEncoder(base), func(r events.DataEventReceiver) { docB(r, 0, 7) })
	if cut > 0 && cut < len(docPrev) {
		docPrev = docPrev[:len(docPrev)-cut]
	}
	doc := encodeDoc(cbe.NewEncoder(base), func(r events.DataEventReceiver) { docB(r, kb, v) })
	cfg := configuration.New()
	cfg.Rules.MaxDocumentSizeBytes = limit
	used := cbe.NewDecoder(cfg)
	for i := 0; i < nPrev; i++ {
		used.DecodeDocument(docPrev, rules.NewRules(&verifh.Rec{}, cfg))
	}
	recUsed, recFresh := &verifh.Rec{}, &verifh.Rec{}
	errUsed := used.DecodeDocument(doc, rules.NewRules(recUsed, cfg))
	errFresh := cbe.NewDecoder(cfg).DecodeDocument(doc, rules.NewRules(recFresh, cfg))
	verifrt.Reach("compared")
	verifrt.Known("KF-C16-decoder-bytesread", verifrt.And(nPrev > 0, errUsed != nil, errFresh == nil))
	verifrt.Assert((errUsed == nil) == (errFresh == nil), "reused CBE decoder reports the same error-ness as a fresh one")
	if errFresh == nil {
		verifrt.Assert(sameEvents(recUsed, recFresh), "reused CBE decoder emits the same events as a fresh one")
	}
}

func encodeCTE(enc *cte.EncoderEventReceiver, f func(r events.DataEventReceiver)) []byte {
	sink := &verifh.Sink{}
	enc.PrepareToEncode(sink)
	verifh.Try(func() { f(enc) })
	return sink.Buf
}

// The CTE encoder keeps layout state (indentation, column, array engine); a
// reused encoder must write the same text as a fresh one.
func Verif_C16_CTEEncoderReuse() {
	ka := verifrt.Choice("docA", numDocA)
	na := verifrt.Choice("eventsOfA", 10)
	kb := verifrt.Choice("docB", numDocB)
	verifrt.Assume(kb != 2)
	v := uint64(verifrt.U8("v"))
	cfg := configuration.New()
	used := cte.NewEncoder(cfg)
	encodeCTE(used, func(r events.DataEventReceiver) { playA(r, ka, na) })
	outUsed := encodeCTE(used, func(r events.DataEventReceiver) { docB(r, kb, v) })
	outFresh := encodeCTE(cte.NewEncoder(cfg), func(r events.DataEventReceiver) { docB(r, kb, v) })
	verifrt.Reach("compared")
	verifrt.Known("KF-C16-cte-encoder-state", len(outUsed) != len(outFresh))
	verifrt.Assert(len(outUsed) == len(outFresh), "reused CTE encoder writes as much text as a fresh one")
	verifrt.Assert(verifrt.BytesEq(outUsed, outFresh), "reused CTE encoder writes the same text as a fresh one")
}
