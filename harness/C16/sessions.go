//verif:package github.com/kstenerud/go-concise-encoding/internal/verifh/c16
//verif:bounds one cbe.Marshaler / cbe.Unmarshaler / cte.Marshaler reused for 2..3 calls: earlier calls are valid values, a value of an unsupported type (chan, func), a write that fails at a symbolic call index, a document cut at a symbolic position or with a template of the wrong type; the last call has a symbolic payload and is compared with a fresh instance
//verif:assume reflect, sync.Map and WaitGroup are the engine's emulation / sequential model (the sessions' type caches are exercised, sequentially); "same error" = same nil-ness
package c16

import (
	"errors"

	"github.com/kstenerud/go-concise-encoding/cbe"
	"github.com/kstenerud/go-concise-encoding/configuration"
	"github.com/kstenerud/go-concise-encoding/cte"
	"github.com/kstenerud/go-concise-encoding/internal/verifh"
	"github.com/kstenerud/go-concise-encoding/internal/verifrt"
)

type S16 struct {
	A uint32
	L []string
	M map[string]uint8
}

type failingWriter struct {
	failAt, calls int
}

func (w *failingWriter) Write(p []byte) (int, error) {
	c := w.calls
	w.calls++
	if c >= w.failAt {
		return 0, errors.New("boom")
	}
	return len(p), nil
}

type marshaler interface {
	Marshal(object interface{}, writer interface {
		Write(p []byte) (n int, err error)
	}) error
}

// earlier: what the instance went through before the call that is compared
func earlierMarshal(k int, m func(v interface{}, w interface {
	Write(p []byte) (n int, err error)
}) error) {
	switch k {
	case 0: // a valid value of another type
		_ = m(map[string]int{"a": 1}, &verifh.Sink{})
	case 1: // an unsupported type, at the top and inside a container
		var unsupported chan int
		_ = m(unsupported, &verifh.Sink{})
		_ = m(struct{ C complex128 }{}, &verifh.Sink{})
		_ = m([]interface{}{1, func() {}}, &verifh.Sink{})
	case 2: // a write failure at any call
		_ = m(S16{A: 1, L: []string{"x", "y"}}, &failingWriter{failAt: verifrt.Choice("failAt", 6)})
	case 3: // the same type, other contents
		_ = m(S16{A: 7, L: []string{"earlier"}, M: map[string]uint8{"k": 1}}, &verifh.Sink{})
	}
}

func Verif_C16_CBEMarshalerReuse() {
	v := S16{A: verifrt.U32("a"), L: []string{"l"}, M: map[string]uint8{"k": verifrt.U8("m")}}
	cfg := configuration.New()
	reused := cbe.NewMarshaler(cfg)
	earlierMarshal(verifrt.Choice("earlier", 4), func(v interface{}, w interface {
		Write(p []byte) (n int, err error)
	}) error {
		return reused.Marshal(v, w)
	})
	if verifrt.Choice("unsupportedAgain", 2) == 1 {
		// the same unsupported type a second time: an error again, like a fresh instance
		var unsupported chan int
		verifrt.Known("KF-C16-unsupported-type-poisons-session", true)
		verifrt.HangBudget(3000000)
		errAgain := reused.Marshal(unsupported, &verifh.Sink{})
		errFresh := cbe.NewMarshaler(cfg).Marshal(unsupported, &verifh.Sink{})
		verifrt.HangBudget(0)
		verifrt.Reach("unsupported-again")
		verifrt.Assert(errAgain != nil && errFresh != nil, "an unsupported type is reported as an error every time")
	}
	got, want := &verifh.Sink{}, &verifh.Sink{}
	errGot := reused.Marshal(v, got)
	errWant := cbe.NewMarshaler(cfg).Marshal(v, want)
	verifrt.Reach("marshaled")
	verifrt.Assert((errGot == nil) == (errWant == nil), "a reused CBE marshaler returns the same error as a fresh one")
	verifrt.Assert(len(got.Buf) == len(want.Buf) && verifrt.BytesEq(got.Buf, want.Buf), "a reused CBE marshaler writes the same document as a fresh one")
}

func Verif_C16_CTEMarshalerReuse() {
	// decimal text: every digit count forks, so the payload is 8 bits here
	v := S16{A: uint32(verifrt.U8("a")), L: []string{"l"}, M: map[string]uint8{"k": 3}}
	cfg := configuration.New()
	reused := cte.NewMarshaler(cfg)
	earlierMarshal(verifrt.Choice("earlier", 4), func(v interface{}, w interface {
		Write(p []byte) (n int, err error)
	}) error {
		return reused.Marshal(v, w)
	})
	got, want := &verifh.Sink{}, &verifh.Sink{}
	errGot := reused.Marshal(v, got)
	errWant := cte.NewMarshaler(cfg).Marshal(v, want)
	verifrt.Reach("marshaled")
	verifrt.Assert((errGot == nil) == (errWant == nil), "a reused CTE marshaler returns the same error as a fresh one")
	verifrt.Assert(len(got.Buf) == len(want.Buf) && verifrt.BytesEq(got.Buf, want.Buf), "a reused CTE marshaler writes the same document as a fresh one")
}

func Verif_C16_CBEUnmarshalerReuse() {
	v := S16{A: verifrt.U32("a"), L: []string{"l", "m"}, M: map[string]uint8{"k": verifrt.U8("m")}}
	cfg := configuration.New()
	sink := &verifh.Sink{}
	if err := cbe.NewMarshaler(cfg).Marshal(v, sink); err != nil {
		verifrt.Assume(false)
	}
	doc := sink.Buf
	reused := cbe.NewUnmarshaler(cfg)
	switch verifrt.Choice("earlier", 4) {
	case 0: // the same document, cut at any position
		cut := verifrt.Choice("cut", 40)
		verifrt.Assume(cut < len(doc))
		_, _ = reused.UnmarshalFromDocument(doc[:cut], S16{})
	case 1: // a template the document does not fit
		_, _ = reused.UnmarshalFromDocument(doc, []int{})
		_, _ = reused.UnmarshalFromDocument(doc, uint8(0))
	case 2: // a valid document of another shape, untyped
		_, _ = reused.UnmarshalFromDocument([]byte{0x81, 0x00, 0x9a, 0x01, 0x02, 0x9b}, nil)
	case 3: // garbage
		_, _ = reused.UnmarshalFromDocument([]byte{0x81, 0x00, 0x99, 0x99, 0x99}, S16{})
	}
	got, errGot := reused.UnmarshalFromDocument(doc, S16{})
	want, errWant := cbe.NewUnmarshaler(cfg).UnmarshalFromDocument(doc, S16{})
	verifrt.Reach("unmarshaled")
	verifrt.Assert(errGot == nil && errWant == nil, "the last document unmarshals on both instances")
	g, ok1 := got.(*S16)
	w, ok2 := want.(*S16)
	verifrt.Assert(ok1 && ok2 && g != nil && w != nil, "both results have the template's type")
	verifrt.Assert(g.A == w.A && g.A == v.A && len(g.L) == len(w.L) && len(g.M) == len(w.M), "a reused CBE unmarshaler builds the same value as a fresh one (scalars, sizes)")
	verifrt.Assert(g.L[0] == "l" && g.L[1] == "m" && g.M["k"] == v.M["k"], "a reused CBE unmarshaler builds the same value as a fresh one (contents)")
}
