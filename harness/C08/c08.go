//verif:package github.com/kstenerud/go-concise-encoding/internal/verifh/c08
//verif:config cap=300 paths=600000 maxsec=1800
//verif:bounds CBE documents: signature, version, each of the 27 length-carrying headers, then 3..4 symbolic bytes (quick: 3 without the validator; thorough: 4 in both modes) of length fields and payload; a dedicated entry gives the media-type length 5 symbolic bytes; MaxArraySizeBytes symbolic in [1, 4096]; rules on and off
//verif:assume memory = sum of the sizes requested through make/append/new on the path (engine ghost counter, validated natively by runtime.MemStats.TotalAlloc); decoding time and the CTE decoder (whole-input ANTLR parse) are outside reach
package c08

import (
	"github.com/kstenerud/go-concise-encoding/cbe"
	"github.com/kstenerud/go-concise-encoding/ce/events"
	"github.com/kstenerud/go-concise-encoding/configuration"
	"github.com/kstenerud/go-concise-encoding/internal/verifh"
	"github.com/kstenerud/go-concise-encoding/internal/verifrt"
	"github.com/kstenerud/go-concise-encoding/nullevent"
	"github.com/kstenerud/go-concise-encoding/rules"
)

const slack = 1 << 20 // 1 MiB of fixed overhead allowed (buffers, validator tables)

func run(doc []byte, withRules bool, limit uint64) {
	cfg := configuration.New()
	cfg.Rules.MaxArraySizeBytes = limit
	var r events.DataEventReceiver = nullevent.NewNullEventReceiver()
	if withRules {
		r = rules.NewRules(r, cfg)
	}
	// a single request above this is already a violation of the bound below
	verifrt.AllocBudget(64*uint64(len(doc)) + 2*4096 + slack)
	before := verifrt.Allocated()
	err := cbe.NewDecoder(cfg).DecodeDocument(doc, r)
	used := verifrt.Allocated() - before
	_ = err
	verifrt.Reach("returned")
	verifrt.Assert(used <= 64*uint64(len(doc))+2*limit+slack, "decoder memory <= 64*len(document) + 2*MaxArraySizeBytes + 1MiB")
}

func Verif_C08_CBEHeaders() {
	h := verifh.CBEHeaders[verifrt.Choice("header", len(verifh.CBEHeaders))]
	withRules := verifrt.Choice("rules", 2) == 0
	n := 4 // 5 bytes exhaust the path budget (2M) without covering new header logic
	if !withRules && !verifrt.Thorough() {
		n = 3 // without the validator the main loop keeps decoding further objects
	}
	tail := verifrt.Bytes("t", n)
	doc := append([]byte{0x81, 0x00}, h...)
	doc = append(doc, tail...)
	limit := verifrt.U64("MaxArraySizeBytes")
	verifrt.Assume(limit >= 1 && limit <= 4096)
	run(doc, withRules, limit)
}

// The media type string has its own length field (not an array chunk).
func Verif_C08_MediaTypeLength() {
	tail := verifrt.Bytes("t", 5)
	doc := append([]byte{0x81, 0x00, 0x7f, 0xf3}, tail...)
	limit := verifrt.U64("MaxArraySizeBytes")
	verifrt.Assume(limit >= 1 && limit <= 4096)
	run(doc, verifrt.Choice("rules", 2) == 0, limit)
}
