//verif:package github.com/kstenerud/go-concise-encoding/cbe
//verif:bounds one refill step of the CBE reader from an arbitrary reachable buffer size (9 sizes of the doubling sequence 127..65024): readIntoBuffer(count) with count symbolic in [8*len(buffer), 2^36) or one of 6 sizes around the buffer size, against a stream that really delivers 0..3*len(buffer) bytes (8 cases)
package cbe

import (
	"io"

	"github.com/kstenerud/go-concise-encoding/configuration"
	"github.com/kstenerud/go-concise-encoding/internal/verifh"
	"github.com/kstenerud/go-concise-encoding/internal/verifrt"
)

// c08Src delivers `left` zero bytes, as many per call as asked for, then EOF.
type c08Src struct{ left int }

func (s *c08Src) Read(p []byte) (int, error) {
	if s.left == 0 {
		return 0, io.EOF
	}
	n := len(p)
	if n > s.left {
		n = s.left
	}
	s.left -= n
	return n, nil
}

// Inductive step behind "memory stays proportional to the data received": from
// a reader whose buffer has any size the doubling sequence reaches, a request
// for `count` bytes (a length field of the document) reserves at most twice
// what the stream really delivers, whatever count says.
func Verif_C08_BufferGrowthStep() {
	sizes := []int{127, 254, 508, 1016, 2032, 4064, 8128, 16256, 65024}
	L := sizes[verifrt.Choice("bufferSize", len(sizes))]
	delivered := []int{0, 1, L - 1, L, L + 1, 2 * L, 2*L + 1, 3 * L}[verifrt.Choice("delivered", 8)]
	var count int
	if shape := verifrt.Choice("countShape", 7); shape == 0 {
		count = int(verifrt.U64("count"))
		verifrt.Assume(count >= 8*L && count < 1<<36)
	} else {
		count = []int{1, L, L + 1, 2*L - 1, 2 * L, 3*L + 5}[shape-1]
	}
	cfg := configuration.New()
	cfg.Rules.MaxDocumentSizeBytes = 1 << 40
	r := NewReader(cfg)
	r.buffer = make([]byte, L)
	r.SetReader(&c08Src{left: delivered})
	verifrt.AllocBudget(uint64(8*L) + 1<<16)
	before := verifrt.Allocated()
	failed := verifh.Try(func() { r.readIntoBuffer(count) })
	used := verifrt.Allocated() - before
	verifrt.Reach("returned")
	verifrt.Assert(failed == (delivered < count), "the request fails exactly when the stream is shorter than the length asked for")
	bound := 2 * delivered
	if bound < L {
		bound = L
	}
	verifrt.Assert(len(r.buffer) <= bound, "the buffer is at most twice the data really received (or its previous size)")
	verifrt.Assert(used <= uint64(4*delivered)+1<<16, "memory reserved by the step <= 4 * bytes received + 64KiB")
}
