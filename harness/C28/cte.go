//verif:package github.com/kstenerud/go-concise-encoding/internal/verifh/c28
//verif:config steps=400000000 timeout=120000
//verif:bounds CTE and universal stream entry points (cte.Decoder.Decode, ce.UniversalDecoder.Decode on a CTE text, cte.Unmarshaler.Unmarshal) on 2 fixed CTE documents read through a reader that returns k bytes per call (k symbolic, 1..len), optionally one empty read first and optionally the last bytes together with io.EOF; compared with decoding the same bytes from memory (the ANTLR parser is executed by the engine)
package c28

import (
	"io"

	"github.com/kstenerud/go-concise-encoding/ce"
	"github.com/kstenerud/go-concise-encoding/configuration"
	"github.com/kstenerud/go-concise-encoding/cte"
	"github.com/kstenerud/go-concise-encoding/internal/verifh"
	"github.com/kstenerud/go-concise-encoding/internal/verifrt"
	"github.com/kstenerud/go-concise-encoding/rules"
)

// stepReader returns k bytes per call.
type stepReader struct {
	data        []byte
	pos, k      int
	emptyFirst  bool
	eofWithData bool
}

func (r *stepReader) Read(p []byte) (int, error) {
	if r.emptyFirst {
		r.emptyFirst = false
		return 0, nil
	}
	remaining := len(r.data) - r.pos
	if remaining == 0 {
		return 0, io.EOF
	}
	n := r.k
	if n > len(p) {
		n = len(p)
	}
	if n > remaining {
		n = remaining
	}
	copy(p, r.data[r.pos:r.pos+n])
	r.pos += n
	if r.pos == len(r.data) && r.eofWithData {
		return n, io.EOF
	}
	return n, nil
}

var cteDocs = []string{"c0\n[1 \"two\" @u8x[03 ff]]", "c0\n{\"k\" = -5}"}

func Verif_C28_CTEStreams() {
	text := []byte(cteDocs[verifrt.Choice("doc", len(cteDocs))])
	k := int(verifrt.U8("bytesPerRead"))
	verifrt.Assume(k >= 1 && k <= len(text))
	rd := &stepReader{data: text, k: k, emptyFirst: verifrt.Bool("emptyReadFirst"), eofWithData: verifrt.Bool("eofWithData")}
	cfg := configuration.New()
	entry := verifrt.Choice("entryPoint", 3)
	mem, str := &verifh.Rec{}, &verifh.Rec{}
	var errMem, errStr error
	var objMem, objStr interface{}
	switch entry {
	case 0:
		errMem = cte.NewDecoder(cfg).DecodeDocument(text, rules.NewRules(mem, cfg))
		errStr = cte.NewDecoder(cfg).Decode(rd, rules.NewRules(str, cfg))
	case 1:
		errMem = ce.NewCEDecoder(cfg).DecodeDocument(text, rules.NewRules(mem, cfg))
		errStr = ce.NewCEDecoder(cfg).Decode(rd, rules.NewRules(str, cfg))
	case 2:
		objMem, errMem = cte.NewUnmarshaler(cfg).UnmarshalFromDocument(text, nil)
		objStr, errStr = cte.NewUnmarshaler(cfg).Unmarshal(rd, nil)
	}
	verifrt.Reach("decoded")
	verifrt.Assert(errMem == nil && errStr == nil, "the document decodes from memory and from the stream")
	if entry == 2 {
		verifrt.Assert((objMem == nil) == (objStr == nil), "unmarshaling from the stream builds a value like unmarshaling from memory")
		return
	}
	verifrt.Assert(len(mem.Evs) == len(str.Evs), "same number of events however the reader splits the text")
	ok := true
	for i := range mem.Evs {
		if i < len(str.Evs) {
			a, b := mem.Evs[i], str.Evs[i]
			ok = verifrt.And(ok, a.K == b.K, a.U == b.U, a.U2 == b.U2, a.B == b.B, verifrt.BytesEq(a.S, b.S))
		}
	}
	verifrt.Assert(ok, "same events however the reader splits the text")
}
