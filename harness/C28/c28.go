//verif:package github.com/kstenerud/go-concise-encoding/internal/verifh/c28
//verif:config cap=300 maxsec=1800
//verif:bounds CBE documents of 3..12 bytes from templates with symbolic payload; reader schedule fully symbolic: each Read returns n in [0, min(len(p), remaining)] bytes (solver variable), at most 2 zero-length reads in total, and may deliver the final bytes together with io.EOF
//verif:assume the reader obeys the io.Reader contract (n <= len(p); data before error)
package c28

import (
	"io"

	"github.com/kstenerud/go-concise-encoding/cbe"
	"github.com/kstenerud/go-concise-encoding/ce"
	"github.com/kstenerud/go-concise-encoding/ce/events"
	"github.com/kstenerud/go-concise-encoding/configuration"
	"github.com/kstenerud/go-concise-encoding/internal/verifh"
	"github.com/kstenerud/go-concise-encoding/internal/verifrt"
	"github.com/kstenerud/go-concise-encoding/rules"
)

// schedReader delivers data according to a symbolic schedule.
type schedReader struct {
	data  []byte
	pos   int
	zeros int // zero-length reads used so far
}

func (r *schedReader) Read(p []byte) (int, error) {
	remaining := len(r.data) - r.pos
	if remaining == 0 {
		return 0, io.EOF
	}
	max := len(p)
	if remaining < max {
		max = remaining
	}
	n := int(verifrt.U8("n"))
	verifrt.Assume(n <= max)
	if n == 0 {
		verifrt.Assume(r.zeros < 2) // bounded number of empty reads (a reader returning (0,nil) forever never terminates)
		r.zeros++
		return 0, nil
	}
	copy(p, r.data[r.pos:r.pos+n])
	r.pos += n
	if r.pos == len(r.data) && verifrt.Bool("eofWithData") {
		return n, io.EOF
	}
	return n, nil
}

const numDocs = 7

func makeDoc(k int, v uint64) []byte {
	cfg := configuration.New()
	sink := &verifh.Sink{}
	enc := cbe.NewEncoder(cfg)
	enc.PrepareToEncode(sink)
	var e events.DataEventReceiver = rules.NewRules(enc, cfg)
	e.OnBeginDocument()
	e.OnVersion(0)
	switch k {
	case 0:
		e.OnPositiveInt(v)
	case 1:
		e.OnList()
		e.OnPositiveInt(v & 0xffff)
		e.OnNull()
		e.OnEndContainer()
	case 2:
		e.OnStringlikeArray(events.ArrayTypeString, "abc")
	case 3:
		e.OnArrayBegin(events.ArrayTypeUint8)
		e.OnArrayChunk(2, true)
		e.OnArrayData([]byte{1, byte(v)})
		e.OnArrayChunk(1, false)
		e.OnArrayData([]byte{3})
	case 4:
		e.OnList()
		e.OnMarker([]byte("a"))
		e.OnTrue()
		e.OnReferenceLocal([]byte("a"))
		e.OnEndContainer()
	case 5:
		e.OnNegativeInt(v | 1<<40)
	case 6:
		e.OnMap()
		e.OnPositiveInt(v & 0xff)
		e.OnFloat(1.5)
		e.OnEndContainer()
	}
	e.OnEndDocument()
	return sink.Buf
}

func sameEvents(a, b *verifh.Rec) bool {
	if len(a.Evs) != len(b.Evs) {
		return false
	}
	ok := true
	for i := range a.Evs {
		x, y := a.Evs[i], b.Evs[i]
		ok = verifrt.And(ok, x.K == y.K, x.U == y.U, x.U2 == y.U2, x.B == y.B, verifrt.BytesEq(x.S, y.S))
	}
	return ok
}

func compare(doc []byte) {
	cfg := configuration.New()
	recM, recS := &verifh.Rec{}, &verifh.Rec{}
	errM := cbe.NewDecoder(cfg).DecodeDocument(doc, rules.NewRules(recM, cfg))
	rd := &schedReader{data: doc}
	errS := cbe.NewDecoder(cfg).Decode(rd, rules.NewRules(recS, cfg))
	verifrt.Reach("compared")
	verifrt.Known("KF-C28-reader-contract", verifrt.And(errM == nil, errS != nil))
	verifrt.Assert((errM == nil) == (errS == nil), "stream decoding reports the same error-ness as in-memory decoding")
	if errM == nil {
		verifrt.Assert(sameEvents(recM, recS), "stream decoding emits the same events as in-memory decoding")
	}
}

func Verif_C28_ValidDocs() {
	k := verifrt.Choice("doc", numDocs)
	v := verifrt.U64("v")
	compare(makeDoc(k, v))
}

// Truncated (invalid) documents must fail the same way whatever the schedule.
func Verif_C28_TruncatedDocs() {
	k := verifrt.Choice("doc", numDocs)
	doc := makeDoc(k, 0x1234)
	cut := verifrt.Choice("cut", 4) + 1
	verifrt.Assume(cut < len(doc))
	compare(doc[:len(doc)-cut])
}

// The universal decoder puts a bufio.Reader in front of the user's reader; the
// result must still not depend on the schedule.
func Verif_C28_UniversalStream() {
	// short documents: behind bufio every composition of the document length is a schedule
	k := 0
	if verifrt.Thorough() {
		k = []int{0, 1, 4}[verifrt.Choice("doc", 3)]
	}
	v := uint64(verifrt.U8("v")) | 0x100 // a 16-bit integer: 5-byte document
	doc := makeDoc(k, v)
	cfg := configuration.New()
	recM, recS := &verifh.Rec{}, &verifh.Rec{}
	errM := ce.NewCEDecoder(cfg).DecodeDocument(doc, rules.NewRules(recM, cfg))
	rd := &schedReader{data: doc}
	errS := ce.NewCEDecoder(cfg).Decode(rd, rules.NewRules(recS, cfg))
	verifrt.Reach("compared")
	verifrt.Assert((errM == nil) == (errS == nil), "universal stream decoding reports the same error-ness as in-memory decoding")
	if errM == nil {
		verifrt.Assert(sameEvents(recM, recS), "universal stream decoding emits the same events as in-memory decoding")
	}
}
