//verif:package github.com/kstenerud/go-concise-encoding/internal/verifh/c26
//verif:bounds slice length 0..3 elements, every element bit symbolic (NaN payloads included) for int8, uint16, int16, uint32, int32, float32, uint64, int64, float64; byte strings of 0..3 elements worth of symbolic bytes
//verif:assume little-endian host (amd64, the host this sandbox and the native replay run on); the package's own init-time endianness probe is executed by the engine, not assumed
package c26

import (
	"math"

	"github.com/kstenerud/go-concise-encoding/cbe"
	"github.com/kstenerud/go-concise-encoding/ce"
	"github.com/kstenerud/go-concise-encoding/ce/events"
	"github.com/kstenerud/go-concise-encoding/configuration"
	"github.com/kstenerud/go-concise-encoding/internal/verifh"
	"github.com/kstenerud/go-concise-encoding/internal/verifrt"
	"github.com/kstenerud/go-concise-encoding/rules"
)

// leBytes is the specification of the wire layout: element i occupies bytes
// [i*w, (i+1)*w), least significant byte first.
func leBytes(vals []uint64, w int) []byte {
	out := make([]byte, 0, len(vals)*w)
	for _, v := range vals {
		for j := 0; j < w; j++ {
			out = append(out, byte(v>>(8*uint(j))))
		}
	}
	return out
}

func symVals(n int) []uint64 {
	vs := make([]uint64, n)
	for i := range vs {
		vs[i] = verifrt.U64("e")
	}
	return vs
}

func checkBytes(got []byte, vals []uint64, w int, what string) {
	want := leBytes(vals, w)
	verifrt.Assert(len(got) == len(want), what+": byte count = elements * width")
	verifrt.Assert(verifrt.BytesEq(got, want), what+": little-endian element bytes")
}

func Verif_C26_ToBytesAndBack() {
	kind := verifrt.Choice("kind", 9)
	n := verifrt.Choice("len", 4)
	vals := symVals(n)
	verifrt.Reach("done")
	switch kind {
	case 0:
		s := make([]int8, n)
		for i := range s {
			s[i] = int8(vals[i])
			vals[i] &= 0xff
		}
		b := ce.Int8SliceAsBytes(s)
		checkBytes(b, vals, 1, "int8")
		back := ce.BytesToInt8Slice(b)
		verifrt.Assert(len(back) == n, "int8 round trip length")
		for i := range back {
			verifrt.Assert(back[i] == s[i], "int8 round trip element")
		}
	case 1:
		s := make([]uint16, n)
		for i := range s {
			s[i] = uint16(vals[i])
			vals[i] &= 0xffff
		}
		b := ce.Uint16SliceAsBytes(s)
		checkBytes(b, vals, 2, "uint16")
		back := ce.BytesToUint16Slice(b)
		verifrt.Assert(len(back) == n, "uint16 round trip length")
		for i := range back {
			verifrt.Assert(back[i] == s[i], "uint16 round trip element")
		}
	case 2:
		s := make([]int16, n)
		for i := range s {
			s[i] = int16(vals[i])
			vals[i] &= 0xffff
		}
		b := ce.Int16SliceAsBytes(s)
		checkBytes(b, vals, 2, "int16")
		back := ce.BytesToInt16Slice(b)
		verifrt.Assert(len(back) == n, "int16 round trip length")
		for i := range back {
			verifrt.Assert(back[i] == s[i], "int16 round trip element")
		}
	case 3:
		s := make([]uint32, n)
		for i := range s {
			s[i] = uint32(vals[i])
			vals[i] &= 0xffffffff
		}
		b := ce.Uint32SliceAsBytes(s)
		checkBytes(b, vals, 4, "uint32")
		back := ce.BytesToUint32Slice(b)
		verifrt.Assert(len(back) == n, "uint32 round trip length")
		for i := range back {
			verifrt.Assert(back[i] == s[i], "uint32 round trip element")
		}
	case 4:
		s := make([]int32, n)
		for i := range s {
			s[i] = int32(vals[i])
			vals[i] &= 0xffffffff
		}
		b := ce.Int32SliceAsBytes(s)
		checkBytes(b, vals, 4, "int32")
		back := ce.BytesToInt32Slice(b)
		verifrt.Assert(len(back) == n, "int32 round trip length")
		for i := range back {
			verifrt.Assert(back[i] == s[i], "int32 round trip element")
		}
	case 5:
		s := make([]float32, n)
		for i := range s {
			s[i] = math.Float32frombits(uint32(vals[i]))
			vals[i] &= 0xffffffff
		}
		b := ce.Float32SliceAsBytes(s)
		checkBytes(b, vals, 4, "float32")
		back := ce.BytesToFloat32Slice(b)
		verifrt.Assert(len(back) == n, "float32 round trip length")
		for i := range back {
			verifrt.Assert(math.Float32bits(back[i]) == uint32(vals[i]), "float32 round trip element (bit-exact, NaN payloads included)")
		}
	case 6:
		s := make([]uint64, n)
		copy(s, vals)
		b := ce.Uint64SliceAsBytes(s)
		checkBytes(b, vals, 8, "uint64")
		back := ce.BytesToUint64Slice(b)
		verifrt.Assert(len(back) == n, "uint64 round trip length")
		for i := range back {
			verifrt.Assert(back[i] == s[i], "uint64 round trip element")
		}
	case 7:
		s := make([]int64, n)
		for i := range s {
			s[i] = int64(vals[i])
		}
		b := ce.Int64SliceAsBytes(s)
		checkBytes(b, vals, 8, "int64")
		back := ce.BytesToInt64Slice(b)
		verifrt.Assert(len(back) == n, "int64 round trip length")
		for i := range back {
			verifrt.Assert(back[i] == s[i], "int64 round trip element")
		}
	case 8:
		s := make([]float64, n)
		for i := range s {
			s[i] = math.Float64frombits(vals[i])
		}
		b := ce.Float64SliceAsBytes(s)
		checkBytes(b, vals, 8, "float64")
		back := ce.BytesToFloat64Slice(b)
		verifrt.Assert(len(back) == n, "float64 round trip length")
		for i := range back {
			verifrt.Assert(math.Float64bits(back[i]) == vals[i], "float64 round trip element (bit-exact, NaN payloads included)")
		}
	}
}

// The other direction: bytes -> typed slice -> bytes is the identity for
// byte strings whose length is a multiple of the element width.
func Verif_C26_FromBytesAndBack() {
	kind := verifrt.Choice("kind", 9)
	n := verifrt.Choice("len", 4)
	w := []int{1, 2, 2, 4, 4, 4, 8, 8, 8}[kind]
	b := verifrt.Bytes("b", n*w)
	var out []byte
	switch kind {
	case 0:
		out = ce.Int8SliceAsBytes(ce.BytesToInt8Slice(b))
	case 1:
		out = ce.Uint16SliceAsBytes(ce.BytesToUint16Slice(b))
	case 2:
		out = ce.Int16SliceAsBytes(ce.BytesToInt16Slice(b))
	case 3:
		out = ce.Uint32SliceAsBytes(ce.BytesToUint32Slice(b))
	case 4:
		out = ce.Int32SliceAsBytes(ce.BytesToInt32Slice(b))
	case 5:
		out = ce.Float32SliceAsBytes(ce.BytesToFloat32Slice(b))
	case 6:
		out = ce.Uint64SliceAsBytes(ce.BytesToUint64Slice(b))
	case 7:
		out = ce.Int64SliceAsBytes(ce.BytesToInt64Slice(b))
	case 8:
		out = ce.Float64SliceAsBytes(ce.BytesToFloat64Slice(b))
	}
	verifrt.Reach("done")
	verifrt.Assert(len(out) == len(b), "bytes -> slice -> bytes keeps the length")
	verifrt.Assert(verifrt.BytesEq(out, b), "bytes -> slice -> bytes is the identity")
}

// The helper's bytes are what the CBE encoder writes for a typed array and
// what the CBE decoder hands back: encode uint16/uint32/uint64 arrays built
// with the helpers and compare the decoded payload.
func Verif_C26_MatchesCodec() {
	kind := verifrt.Choice("kind", 3)
	n := verifrt.Choice("len", 3) + 1
	vals := symVals(n)
	var at events.ArrayType
	var data []byte
	var w int
	switch kind {
	case 0:
		s := make([]uint16, n)
		for i := range s {
			s[i] = uint16(vals[i])
			vals[i] &= 0xffff
		}
		at, data, w = events.ArrayTypeUint16, ce.Uint16SliceAsBytes(s), 2
	case 1:
		s := make([]uint32, n)
		for i := range s {
			s[i] = uint32(vals[i])
			vals[i] &= 0xffffffff
		}
		at, data, w = events.ArrayTypeUint32, ce.Uint32SliceAsBytes(s), 4
	case 2:
		s := make([]uint64, n)
		copy(s, vals)
		at, data, w = events.ArrayTypeUint64, ce.Uint64SliceAsBytes(s), 8
	}
	cfg := configuration.New()
	sink := &verifh.Sink{}
	enc := cbe.NewEncoder(cfg)
	enc.PrepareToEncode(sink)
	r := rules.NewRules(enc, cfg)
	r.OnBeginDocument()
	r.OnVersion(0)
	r.OnArray(at, uint64(n), data)
	r.OnEndDocument()
	doc := sink.Buf
	// the payload is the tail of the document
	verifrt.Assert(len(doc) >= n*w, "document holds the payload")
	verifrt.Assert(verifrt.BytesEq(doc[len(doc)-n*w:], leBytes(vals, w)), "encoder writes the helper's little-endian bytes")
	rec := &verifh.Rec{}
	err := cbe.NewDecoder(cfg).DecodeDocument(doc, rules.NewRules(rec, cfg))
	verifrt.Reach("done")
	verifrt.Assert(err == nil, "decodes")
	g := rec.Evs[2]
	verifrt.Assert(g.K == verifh.KArray && g.U == uint64(at) && g.U2 == uint64(n), "array event comes back")
	verifrt.Assert(verifrt.BytesEq(g.S, leBytes(vals, w)), "decoder hands back the same bytes")
}
