//verif:package github.com/kstenerud/go-concise-encoding/cte
//verif:config cap=300 maxsec=1800
//verif:bounds all 7 format settings x the 8 integer array kinds; element value: all values for 8/16-bit kinds; 32-bit kinds for the binary, octal and hexadecimal settings in the quick tier; 64-bit kinds at the range edges (top byte symbolic, low bytes all-zero or all-one) for those settings in the quick tier; 64-bit kinds with every bit symbolic and 32-bit decimal (symbolic division by powers of ten) are not registered: single queries ran past every solver's 4-minute limit; one or two elements per array
//verif:assume the association array header -> parse base (@u8b[ -> 2, @u8o[ -> 8, @u8x[ -> 16, @u8[ -> 0) is made by the grammar and listener dispatch (ANTLR, not executed): the harness applies the same mapping; float kinds (strconv float text) are outside reach
package cte

import (
	"github.com/kstenerud/go-concise-encoding/ce/events"
	"github.com/kstenerud/go-concise-encoding/configuration"
	"github.com/kstenerud/go-concise-encoding/internal/verifh"
	"github.com/kstenerud/go-concise-encoding/internal/verifrt"
)

var c25Formats = []configuration.CTENumericFormat{
	configuration.CTEEncodingFormatDecimal,
	configuration.CTEEncodingFormatBinary,
	configuration.CTEEncodingFormatBinaryZeroFilled,
	configuration.CTEEncodingFormatOctal,
	configuration.CTEEncodingFormatOctalZeroFilled,
	configuration.CTEEncodingFormatHexadecimal,
	configuration.CTEEncodingFormatHexadecimalZeroFilled,
}

var c25Bases = []int{0, 2, 2, 8, 8, 16, 16}

type c25Kind struct {
	at     events.ArrayType
	bits   int
	signed bool
}

var c25Kinds = []c25Kind{
	{events.ArrayTypeUint8, 8, false}, {events.ArrayTypeInt8, 8, true},
	{events.ArrayTypeUint16, 16, false}, {events.ArrayTypeInt16, 16, true},
	{events.ArrayTypeUint32, 32, false}, {events.ArrayTypeInt32, 32, true},
	{events.ArrayTypeUint64, 64, false}, {events.ArrayTypeInt64, 64, true},
}

func c25SetFormat(cfg *configuration.Configuration, at events.ArrayType, f configuration.CTENumericFormat) {
	a := &cfg.Encoder.CTE.DefaultNumericFormats.Array
	switch at {
	case events.ArrayTypeUint8:
		a.Uint8 = f
	case events.ArrayTypeInt8:
		a.Int8 = f
	case events.ArrayTypeUint16:
		a.Uint16 = f
	case events.ArrayTypeInt16:
		a.Int16 = f
	case events.ArrayTypeUint32:
		a.Uint32 = f
	case events.ArrayTypeInt32:
		a.Int32 = f
	case events.ArrayTypeUint64:
		a.Uint64 = f
	case events.ArrayTypeInt64:
		a.Int64 = f
	}
}

// splitElements cuts "...[e1 e2]" into the element texts.
func c25Elements(text []byte) []string {
	open := -1
	for i, c := range text {
		if c == '[' {
			open = i
		}
	}
	var out []string
	start := open + 1
	for i := open + 1; i < len(text); i++ {
		if text[i] == ' ' || text[i] == ']' {
			out = append(out, string(text[start:i]))
			start = i + 1
		}
	}
	return out
}

func Verif_C25_IntegerArrayFormats() {
	fi := verifrt.Choice("format", len(c25Formats))
	nk := 4 // 8 and 16 bit kinds for every format
	if verifrt.Thorough() && fi != 0 {
		nk = 6 // thorough: also the 32-bit kinds for the power-of-two bases (32-bit decimal = symbolic division by powers of ten: single queries run past every solver's 4-minute limit)
	}
	ki := verifrt.Choice("kind", nk)
	c25Check(fi, ki)
}

// 32/64-bit kinds with the shift-only bases (no division by powers of ten).
func Verif_C25_WideKindsPowerOfTwoBases() {
	fi := verifrt.Choice("format", 6) + 1
	nk := 2 // uint32, int32 (64-bit kinds with every bit symbolic did not finish within the thorough budget; their range edges are in Int64Edges)
	ki := verifrt.Choice("kind", nk) + 4
	c25Check(fi, ki)
}

func c25Check(fi, ki int) {
	k := c25Kinds[ki]
	n := verifrt.Choice("elems", 2) + 1
	if k.bits > 16 {
		n = 1
	}
	c25CheckData(fi, ki, n, verifrt.Bytes("e", n*k.bits/8))
}

// 64-bit kinds at the edges of their range, in the quick tier: the seven low
// bytes are all 0x00 or all 0xff and the top byte is symbolic (MinInt64,
// MaxInt64, -1, MaxUint64, 2^56 multiples ... are all in this set).
func Verif_C25_Int64Edges() {
	fi := verifrt.Choice("format", 6) + 1
	ki := verifrt.Choice("kind", 2) + 6
	fill := []byte{0x00, 0xff}[verifrt.Choice("lowBytes", 2)]
	top := verifrt.U8("top")
	c25CheckData(fi, ki, 1, []byte{fill, fill, fill, fill, fill, fill, fill, top})
}

func c25CheckData(fi, ki, n int, data []byte) {
	k := c25Kinds[ki]
	cfg := configuration.New()
	c25SetFormat(cfg, k.at, c25Formats[fi])
	sink := &verifh.Sink{}
	enc := NewEncoder(cfg)
	enc.PrepareToEncode(sink)
	enc.OnBeginDocument()
	enc.OnVersion(0)
	enc.OnArray(k.at, uint64(n), data)
	enc.OnEndDocument()
	elems := c25Elements(sink.Buf)
	verifrt.Reach("encoded")
	verifrt.Assert(len(elems) == n, "one text element per array element")
	var back []byte
	rejected := verifh.Try(func() {
		for _, e := range elems {
			if k.signed {
				back = parseIntElement(e, c25Bases[fi], k.bits, back)
			} else {
				back = parseUintElement(e, c25Bases[fi], k.bits, back)
			}
		}
	})
	verifrt.Assert(!rejected, "every element the encoder writes is accepted by the element parser")
	verifrt.Assert(verifrt.BytesEq(back, data), "parsed element bytes equal the original element bytes")
}
