//verif:package github.com/kstenerud/go-concise-encoding/internal/verifh/c25
//verif:config cap=300 steps=400000000 timeout=120000 maxsec=1800
//verif:bounds the real CTE encoder with each of the 7 format settings writes a uint8 / int8 / uint16 / int16 array of two elements, one of them symbolic (quick: 15 boundary values of its low byte, thorough: 72 values around the boundaries), and the real CTE decoder (ANTLR executed by the engine) reads the document back: header, base and element text are all the real code
//verif:assume each symbolic character of the text is enumerated at the lexer's table lookups (one path per value)
package c25

import (
	"github.com/kstenerud/go-concise-encoding/ce/events"
	"github.com/kstenerud/go-concise-encoding/configuration"
	"github.com/kstenerud/go-concise-encoding/cte"
	"github.com/kstenerud/go-concise-encoding/internal/verifh"
	"github.com/kstenerud/go-concise-encoding/internal/verifrt"
	"github.com/kstenerud/go-concise-encoding/rules"
)

var formats = []configuration.CTENumericFormat{
	configuration.CTEEncodingFormatDecimal,
	configuration.CTEEncodingFormatBinary,
	configuration.CTEEncodingFormatBinaryZeroFilled,
	configuration.CTEEncodingFormatOctal,
	configuration.CTEEncodingFormatOctalZeroFilled,
	configuration.CTEEncodingFormatHexadecimal,
	configuration.CTEEncodingFormatHexadecimalZeroFilled,
}

func Verif_C25_ThroughRealDecoder() {
	f := formats[verifrt.Choice("format", len(formats))]
	kind := verifrt.Choice("kind", 4)
	e := verifrt.U8("element")
	if !verifrt.Thorough() {
		verifrt.Assume(e <= 2 || (e >= 7 && e <= 10) || e == 15 || e == 16 || e == 99 || e == 100 || e == 127 || e == 128 || e == 255)
	} else {
		verifrt.Assume(e < 24 || (e >= 96 && e < 136) || e >= 248) // thorough: 72 values around every digit-count and sign boundary
	}
	cfg := configuration.New()
	a := &cfg.Encoder.CTE.DefaultNumericFormats.Array
	var at events.ArrayType
	var data []byte
	switch kind {
	case 0:
		at, data, a.Uint8 = events.ArrayTypeUint8, []byte{e, 200}, f
	case 1:
		at, data, a.Int8 = events.ArrayTypeInt8, []byte{e, 0x80}, f
	case 2:
		at, data, a.Uint16 = events.ArrayTypeUint16, []byte{e, 0x12, 0xff, 0xff}, f
	case 3:
		at, data, a.Int16 = events.ArrayTypeInt16, []byte{0, 0x80, e, 0xff}, f
	}
	n := uint64(2)
	sink := &verifh.Sink{}
	enc := cte.NewEncoder(cfg)
	enc.PrepareToEncode(sink)
	r := rules.NewRules(enc, cfg)
	r.OnBeginDocument()
	r.OnVersion(0)
	r.OnArray(at, n, data)
	r.OnEndDocument()
	rec := &verifh.Rec{}
	err := cte.NewDecoder(cfg).DecodeDocument(sink.Buf, rules.NewRules(rec, cfg))
	verifrt.Reach("decoded")
	verifrt.Assert(err == nil, "the array text written with this format setting is accepted by the CTE decoder")
	if err != nil {
		return
	}
	var got []byte
	var gotType uint64
	for _, ev := range rec.Evs {
		switch ev.K {
		case verifh.KArray, verifh.KArrayBegin:
			gotType = ev.U
			got = append(got, ev.S...)
		case verifh.KArrayData:
			got = append(got, ev.S...)
		}
	}
	verifrt.Assert(gotType == uint64(at), "the array keeps its element type")
	verifrt.Assert(len(got) == len(data) && verifrt.BytesEq(got, data), "the decoded elements equal the encoded ones")
}
