//verif:package github.com/kstenerud/go-concise-encoding/internal/verifh/c14
//verif:bounds every limit is an unconstrained symbolic uint64 (MaxArraySizeBytes >= 1, where 0 means unlimited); documents: nesting depth 1..4 of list/map/node/edge/record; 0..4 values in a list; arrays of 0..4 bytes whole and in 2 chunks; 0..3 markers; CBE documents of 3..14 bytes
//verif:assume MaxArraySizeBytes = 0 means "unlimited" in the code and is not addressed by the statement
package c14

import (
	compact_float "github.com/kstenerud/go-compact-float"
	compact_time "github.com/kstenerud/go-compact-time"
	"github.com/kstenerud/go-concise-encoding/cbe"
	"github.com/kstenerud/go-concise-encoding/ce/events"
	"github.com/kstenerud/go-concise-encoding/configuration"
	"github.com/kstenerud/go-concise-encoding/internal/verifh"
	"github.com/kstenerud/go-concise-encoding/internal/verifrt"
	"github.com/kstenerud/go-concise-encoding/rules"
)

func begin(cfg *configuration.Configuration) *rules.RulesEventReceiver {
	r := rules.NewRules(&verifh.Rec{}, cfg)
	r.OnBeginDocument()
	r.OnVersion(0)
	return r
}

// Container depth: d nested containers of a chosen kind are accepted exactly when d <= limit.
func Verif_C14_Depth() {
	limit := verifrt.U64("MaxContainerDepth")
	d := verifrt.Choice("depth", 4) + 1
	kind := verifrt.Choice("kind", 5)
	cfg := configuration.New()
	cfg.Rules.MaxContainerDepth = limit
	rej := verifh.Try(func() {
		r := begin(cfg)
		if kind == 4 {
			r.OnRecordType([]byte("t")) // depth 1 while open
			r.OnPositiveInt(1)
			r.OnEndContainer()
		}
		for i := 0; i < d; i++ {
			switch kind {
			case 0:
				r.OnList()
			case 1:
				r.OnMap()
				r.OnPositiveInt(1)
			case 2:
				r.OnNode()
				r.OnNull()
			case 3:
				r.OnEdge()
			case 4:
				r.OnRecord([]byte("t"))
			}
		}
		if kind == 1 || kind == 4 {
			r.OnNull() // value of the innermost map entry / record
		}
		if kind == 3 {
			r.OnPositiveInt(1)
			r.OnNull()
			r.OnPositiveInt(2)
		}
		for i := 0; i < d; i++ {
			r.OnEndContainer()
			if kind == 3 && i+1 < d {
				r.OnNull()
				r.OnPositiveInt(2)
			}
		}
		r.OnEndDocument()
	})
	verifrt.Reach("done")
	verifrt.Assert(rej == (uint64(d) > limit), "container depth limit is exact")
}

// Object count: a list of k integers has k+1 objects.
func Verif_C14_ObjectCount() {
	limit := verifrt.U64("MaxObjectCount")
	k := verifrt.Choice("values", 5)
	cfg := configuration.New()
	cfg.Rules.MaxObjectCount = limit
	rej := verifh.Try(func() {
		r := begin(cfg)
		r.OnList()
		for i := 0; i < k; i++ {
			r.OnPositiveInt(uint64(i))
		}
		r.OnEndContainer()
		r.OnEndDocument()
	})
	verifrt.Reach("done")
	verifrt.Assert(rej == (uint64(k+1) > limit), "object count limit is exact")
}

// Array size in bytes, whole and chunked.
func Verif_C14_ArraySize() {
	limit := verifrt.U64("MaxArraySizeBytes")
	verifrt.Assume(limit >= 1)
	at := []events.ArrayType{events.ArrayTypeUint8, events.ArrayTypeString, events.ArrayTypeUint16}[verifrt.Choice("type", 3)]
	esz := 1
	if at == events.ArrayTypeUint16 {
		esz = 2
	}
	elems := verifrt.Choice("elems", 4)
	n := elems * esz
	form := verifrt.Choice("form", 2)
	data := make([]byte, n)
	for i := range data {
		data[i] = 'a'
	}
	cfg := configuration.New()
	cfg.Rules.MaxArraySizeBytes = limit
	rej := verifh.Try(func() {
		r := begin(cfg)
		if form == 0 {
			r.OnArray(at, uint64(elems), data)
		} else {
			k := verifrt.Choice("split", elems+1)
			r.OnArrayBegin(at)
			r.OnArrayChunk(uint64(k), true)
			if k > 0 {
				r.OnArrayData(data[:k*esz])
			}
			r.OnArrayChunk(uint64(elems-k), false)
			if elems-k > 0 {
				r.OnArrayData(data[k*esz:])
			}
		}
		r.OnEndDocument()
	})
	verifrt.Reach("done")
	verifrt.Assert(rej == (uint64(n) > limit), "array size limit is exact, summed over chunks")
}

// Marker count.
func Verif_C14_MarkerCount() {
	maxMarkers := verifrt.U64("MaxMarkerCount")
	maxRefs := verifrt.U64("MaxLocalReferenceCount")
	k := verifrt.Choice("markers", 4)
	refs := verifrt.Choice("refs", 3)
	verifrt.Assume(refs == 0 || k > 0)
	cfg := configuration.New()
	cfg.Rules.MaxMarkerCount = maxMarkers
	cfg.Rules.MaxLocalReferenceCount = maxRefs
	rej := verifh.Try(func() {
		r := begin(cfg)
		r.OnList()
		for i := 0; i < k; i++ {
			r.OnMarker([]byte{byte('a' + i)})
			r.OnPositiveInt(uint64(i))
		}
		for i := 0; i < refs; i++ {
			r.OnReferenceLocal([]byte{'a'})
		}
		r.OnEndContainer()
		r.OnEndDocument()
	})
	verifrt.Reach("done")
	// The marker count is also charged against MaxLocalReferenceCount (the suite
	// pins that); the statement lists only the marker limit, so the exact verdict
	// is asserted when that other limit is out of the way.
	within := verifrt.And(uint64(refs) <= maxRefs, uint64(k) <= maxRefs)
	verifrt.Known("KF-C14-marker-limit", verifrt.And(within, rej != (uint64(k) > maxMarkers)))
	if within {
		verifrt.Assert(rej == (uint64(k) > maxMarkers), "marker count limit is exact")
	} else {
		verifrt.Reach("other-limit")
		if uint64(k) > maxMarkers {
			verifrt.Assert(rej, "too many markers rejected")
		}
	}
}

// Document size through the CBE decoder: a valid document is rejected exactly
// when its length exceeds MaxDocumentSizeBytes.
func Verif_C14_DocumentSizeCBE() {
	limit := verifrt.U64("MaxDocumentSizeBytes")
	tmpl := verifrt.Choice("tmpl", 8)
	v := verifrt.U64("v")
	base := configuration.New()
	sink := &verifh.Sink{}
	enc := cbe.NewEncoder(base)
	enc.PrepareToEncode(sink)
	var e events.DataEventReceiver = rules.NewRules(enc, base)
	e.OnBeginDocument()
	e.OnVersion(0)
	switch tmpl {
	case 0:
		e.OnPositiveInt(v)
	case 1:
		e.OnList()
		e.OnPositiveInt(v)
		e.OnNull()
		e.OnEndContainer()
	case 2:
		e.OnStringlikeArray(events.ArrayTypeString, "abc")
	case 3:
		e.OnArrayBegin(events.ArrayTypeUint8)
		e.OnArrayChunk(2, true)
		e.OnArrayData([]byte{1, 2})
		e.OnArrayChunk(1, false)
		e.OnArrayData([]byte{3})
	case 4:
		e.OnList()
		e.OnMarker([]byte("a"))
		e.OnNull()
		e.OnReferenceLocal([]byte("a"))
		e.OnEndContainer()
	case 5:
		e.OnMedia("a/b", []byte{1, 2, 3})
	case 6:
		e.OnDecimalFloat(compact_float.DFloatValue(-2, int64(v&0xffffff)+1))
	case 7:
		e.OnTime(compact_time.NewDate(2020, 1, int(v&7)+1))
	}
	e.OnEndDocument()
	doc := sink.Buf
	cfg := configuration.New()
	cfg.Rules.MaxDocumentSizeBytes = limit
	err := cbe.NewDecoder(cfg).DecodeDocument(doc, rules.NewRules(&verifh.Rec{}, cfg))
	verifrt.Reach("done")
	verifrt.Known("KF-C14-docsize-uncounted", verifrt.And(err == nil, uint64(len(doc)) > limit))
	verifrt.Assert((err != nil) == (uint64(len(doc)) > limit), "document size limit is exact for CBE")
}
