//verif:package github.com/kstenerud/go-concise-encoding/internal/verifh/c20
//verif:config cap=300 paths=600000
//verif:bounds pointer graphs with recursion support on: (a) 3 struct nodes with two pointer fields each, every pointer nil or any node (4^6 topologies: self loops, cycles of length 2 and 3, shared targets), every payload a symbolic uint64; (b) 3 nodes whose children are a slice of 0..2 pointers to any node; (c) 2..3 nodes holding a map[string]*node of 0..2 entries; marshaled by the real iterator Session (go-duplicates pointer scan, markers and references), validated by the real rules, unmarshaled by the real builder Session into the same type; (e) a node with a slice of 5..6 children holding a back-edge and a shared pointer at any positions; (f) pointers of different types to one address (a struct and its first field); entry (d) sends graphs of 2 such nodes (thorough: also 3 nodes with fixed payloads) through the real CBE encoder and decoder in between
//verif:assume reflect (incl. Value.Pointer as the identity of the engine's heap cell), sync.Map and WaitGroup are the engine's emulation / sequential model; topologies are chosen by engine-enumerated selectors, payloads are solver variables; termination = no path exhausts the 5M-instruction step budget; CTE in between (ANTLR) is outside reach
package c20

import (
	"github.com/kstenerud/go-concise-encoding/builder"
	"github.com/kstenerud/go-concise-encoding/cbe"
	"github.com/kstenerud/go-concise-encoding/configuration"
	"github.com/kstenerud/go-concise-encoding/internal/verifh"
	"github.com/kstenerud/go-concise-encoding/internal/verifrt"
	"github.com/kstenerud/go-concise-encoding/iterator"
	"github.com/kstenerud/go-concise-encoding/rules"
)

func config() *configuration.Configuration {
	cfg := configuration.New()
	cfg.Iterator.RecursionSupport = true
	return cfg
}

// marshal produces the validated event stream of obj.
func marshal(cfg *configuration.Configuration, obj interface{}) []verifh.Ev {
	rec := &verifh.Rec{}
	failed := verifh.Try(func() { iterator.NewSession(nil, cfg).NewIterator(rules.NewRules(rec, cfg)).Iterate(obj) })
	verifrt.Reach("marshaled")
	verifrt.Assert(!failed, "marshaling a pointer graph with recursion support succeeds and its events are rules-valid")
	return rec.Evs
}

func unmarshal(cfg *configuration.Configuration, evs []verifh.Ev, template interface{}) interface{} {
	b := builder.NewSession(nil, cfg).NewBuilderFor(template)
	failed := verifh.Try(func() { verifh.Play(evs, b) })
	verifrt.Reach("unmarshaled")
	verifrt.Assert(!failed, "the marshaled graph unmarshals without error")
	return b.GetBuiltObject()
}

// ---- (a) struct nodes with two pointers ---------------------------------------

type N struct {
	V     uint64
	Next  *N
	Other *N
}

type isoN struct {
	fwd, bwd map[*N]*N
	same     bool // payload equality, accumulated without branching
}

func (m *isoN) walk(a, b *N) bool {
	if a == nil || b == nil {
		return a == nil && b == nil
	}
	if x, seen := m.fwd[a]; seen {
		return x == b
	}
	if _, seen := m.bwd[b]; seen {
		return false // b already stands for another node: sharing that was not there
	}
	m.fwd[a], m.bwd[b] = b, a
	m.same = verifrt.And(m.same, a.V == b.V)
	return m.walk(a.Next, b.Next) && m.walk(a.Other, b.Other)
}

func buildN(count int, symbolicPayload bool) *N {
	nodes := make([]*N, count)
	for i := range nodes {
		nodes[i] = &N{}
	}
	for i, n := range nodes {
		n.V = uint64(i) + 1
		if symbolicPayload {
			n.V = verifrt.U64("v")
		}
		if k := verifrt.Choice("next", count+1); k < count {
			n.Next = nodes[k]
		}
		if k := verifrt.Choice("other", count+1); k < count {
			n.Other = nodes[k]
		}
	}
	return nodes[0]
}

func checkN(root *N, got interface{}) {
	g, ok := got.(*N)
	verifrt.Assert(ok && g != nil, "a graph of the template's type is built")
	m := &isoN{fwd: map[*N]*N{}, bwd: map[*N]*N{}, same: true}
	verifrt.Assert(m.walk(root, g), "the unmarshaled graph has the same shape: nil, shared and cyclic pointers in the same places")
	verifrt.Assert(m.same, "every node carries its original value")
}

func Verif_C20_StructGraph() {
	root := buildN(3, true)
	cfg := config()
	checkN(root, unmarshal(cfg, marshal(cfg, root), &N{}))
}

// ---- (d) the same graphs through CBE bytes --------------------------------------

func Verif_C20_StructGraphThroughCBE() {
	// every symbolic payload multiplies the paths by the number of CBE integer
	// encodings: 2 nodes with symbolic payloads, or (thorough) 3 nodes with fixed ones
	count, symbolicPayload := 2, true
	if verifrt.Thorough() && verifrt.Choice("threeNodes", 2) == 1 {
		count, symbolicPayload = 3, false
	}
	root := buildN(count, symbolicPayload)
	cfg := config()
	evs := marshal(cfg, root)
	sink := &verifh.Sink{}
	enc := cbe.NewEncoder(cfg)
	enc.PrepareToEncode(sink)
	verifh.Play(evs, enc)
	b := builder.NewSession(nil, cfg).NewBuilderFor(&N{})
	err := cbe.NewDecoder(cfg).DecodeDocument(sink.Buf, rules.NewRules(b, cfg))
	verifrt.Reach("decoded")
	verifrt.Assert(err == nil, "the CBE document of the graph decodes and unmarshals")
	checkN(root, b.GetBuiltObject())
}

// ---- (b) slices of pointers ------------------------------------------------------

type S struct {
	V    uint64
	Kids []*S
}

type isoS struct {
	fwd, bwd map[*S]*S
	same     bool
}

func (m *isoS) walk(a, b *S) bool {
	if a == nil || b == nil {
		return a == nil && b == nil
	}
	if x, seen := m.fwd[a]; seen {
		return x == b
	}
	if _, seen := m.bwd[b]; seen {
		return false
	}
	m.fwd[a], m.bwd[b] = b, a
	m.same = verifrt.And(m.same, a.V == b.V)
	if len(a.Kids) != len(b.Kids) {
		return false
	}
	for i := range a.Kids {
		if !m.walk(a.Kids[i], b.Kids[i]) {
			return false
		}
	}
	return true
}

func Verif_C20_SliceGraph() {
	nodes := []*S{{}, {}, {}}
	for _, n := range nodes {
		n.V = verifrt.U64("v")
		for k := verifrt.Choice("kids", 3); k > 0; k-- {
			n.Kids = append(n.Kids, nodes[verifrt.Choice("kid", 3)])
		}
	}
	cfg := config()
	got, ok := unmarshal(cfg, marshal(cfg, nodes[0]), &S{}).(*S)
	verifrt.Assert(ok && got != nil, "a graph of the template's type is built")
	m := &isoS{fwd: map[*S]*S{}, bwd: map[*S]*S{}, same: true}
	verifrt.Assert(m.walk(nodes[0], got), "the unmarshaled graph has the same shape")
	verifrt.Assert(m.same, "every node carries its original value")
}

// ---- (c) maps of pointers ---------------------------------------------------------

type M struct {
	V uint64
	M map[string]*M
}

type isoM struct {
	fwd, bwd map[*M]*M
	same     bool
}

func (m *isoM) walk(a, b *M) bool {
	if a == nil || b == nil {
		return a == nil && b == nil
	}
	if x, seen := m.fwd[a]; seen {
		return x == b
	}
	if _, seen := m.bwd[b]; seen {
		return false
	}
	m.fwd[a], m.bwd[b] = b, a
	m.same = verifrt.And(m.same, a.V == b.V)
	if len(a.M) != len(b.M) {
		return false
	}
	for _, k := range []string{"x", "y"} {
		ak, aok := a.M[k]
		bk, bok := b.M[k]
		if aok != bok || !m.walk(ak, bk) {
			return false
		}
	}
	return true
}

func Verif_C20_MapGraph() {
	n := verifrt.Choice("nodes", 2) + 2
	nodes := make([]*M, n)
	for i := range nodes {
		nodes[i] = &M{}
	}
	for _, nd := range nodes {
		nd.V = verifrt.U64("v")
		for _, k := range []string{"x", "y"} {
			if t := verifrt.Choice("target", n+1); t < n {
				if nd.M == nil {
					nd.M = map[string]*M{}
				}
				nd.M[k] = nodes[t]
			}
		}
	}
	cfg := config()
	got, ok := unmarshal(cfg, marshal(cfg, nodes[0]), &M{}).(*M)
	verifrt.Assert(ok && got != nil, "a graph of the template's type is built")
	m := &isoM{fwd: map[*M]*M{}, bwd: map[*M]*M{}, same: true}
	verifrt.Assert(m.walk(nodes[0], got), "the unmarshaled graph has the same shape")
	verifrt.Assert(m.same, "every node carries its original value")
}

// ---- (e) wide slices: references resolved after the slice has grown ------------

// A node whose slice of children holds 5..6 pointers, one of them (at any
// position) a back-edge to the node itself or a pointer shared with another
// position: the reference is read while the slice under construction is still
// small and resolved after it has been reallocated.
func Verif_C20_WideSliceGraph() {
	n := verifrt.Choice("kids", 2) + 5
	root := &S{V: verifrt.U64("v")}
	shared := &S{V: verifrt.U64("shared")}
	back := verifrt.Choice("backEdgeAt", n)
	dup := verifrt.Choice("sharedAlsoAt", n)
	for i := 0; i < n; i++ {
		switch {
		case i == back:
			root.Kids = append(root.Kids, root)
		case i == dup || i == n-1:
			root.Kids = append(root.Kids, shared)
		default:
			root.Kids = append(root.Kids, &S{V: uint64(i)})
		}
	}
	cfg := config()
	got, ok := unmarshal(cfg, marshal(cfg, root), &S{}).(*S)
	verifrt.Assert(ok && got != nil, "a graph of the template's type is built")
	m := &isoS{fwd: map[*S]*S{}, bwd: map[*S]*S{}, same: true}
	verifrt.Assert(m.walk(root, got), "the unmarshaled graph has the same shape")
	verifrt.Assert(m.same, "every node carries its original value")
}

// ---- (f) pointers of different types to one address -----------------------------

type Inner struct {
	X uint64
	Y uint64
}

type Mixed struct {
	A *Inner
	B *uint64 // may point at A.X: same address as A, another type
	C *Inner
	D *uint64
}

func Verif_C20_SameAddressDifferentTypes() {
	in := &Inner{X: verifrt.U64("x"), Y: verifrt.U64("y")}
	other := verifrt.U64("other")
	v := &Mixed{A: in, C: in}
	if verifrt.Choice("bPointsIntoA", 2) == 1 {
		v.B, v.D = &in.X, &in.X
	} else {
		v.B, v.D = &other, &in.Y
	}
	cfg := config()
	got, ok := unmarshal(cfg, marshal(cfg, v), &Mixed{}).(*Mixed)
	verifrt.Assert(ok && got != nil && got.A != nil && got.B != nil && got.C != nil && got.D != nil, "a value of the template's type with all pointers set is built")
	verifrt.Assert(got.A == got.C, "pointers that were shared are shared again")
	verifrt.Assert(verifrt.And(got.A.X == in.X, got.A.Y == in.Y, *got.B == *v.B, *got.D == *v.D), "every pointer leads to its original value")
}
