//verif:package github.com/kstenerud/go-concise-encoding/iterator
//verif:config cap=300 maxsec=1800
//verif:bounds marshal side: one struct type with 13 fields covering every tag (omit, omit_empty, omit_zero, omit_never, name=, order=), an embedded struct, an unexported field and an acronym name; kinds uint64, string (0..1 symbolic bytes), []byte (nil, empty, 1 element), *uint64 (nil or pointing to a symbolic value); both field-name styles; default omit behaviour never / empty / zero
//verif:assume the real iterator Session/RootObjectIterator/struct iterator run on the engine's reflect emulation and a sequential model of sync.Map/WaitGroup; the expected event list is computed from a hand-written table of the fields (no reflection, no tag parsing); struct *types* are fixed Go types, only their contents and the configuration are symbolic
package iterator

import (
	"github.com/kstenerud/go-concise-encoding/configuration"
	"github.com/kstenerud/go-concise-encoding/internal/verifh"
	"github.com/kstenerud/go-concise-encoding/internal/verifrt"
	"github.com/kstenerud/go-concise-encoding/rules"
)

type C21Emb struct {
	Deep  uint64 `ce:"order=1"`
	Blank string `ce:"omit_empty"`
}

type C21Src struct {
	PlainField uint64
	Renamed    uint64 `ce:"name=Other"`
	Never      uint64 `ce:"omit_never"`
	Zero       uint64 `ce:"omit_zero"`
	Str        string `ce:"omit_empty"`
	StrDefault string
	Bytes      []byte
	Ptr        *uint64
	Gone       uint64 `ce:"omit"`
	C21Emb
	First      uint64 `ce:"order=0"`
	HTTPServer uint64 `ce:"omit_zero"`
	hidden     uint64
}

const (
	c21Default = iota
	c21Never
	c21Empty
	c21Zero
)

// one row per field that can appear, in the order the statement prescribes:
// ascending order tag, declaration order (embedded structs flattened) among equals
type c21Row struct {
	camel, snake string
	omit         int
	kind         byte // 'u' uint64, 's' string, 'b' []byte, 'p' *uint64
	u            uint64
	s            []byte
	isNil        bool
}

func c21Str(name string) []byte {
	if verifrt.Choice(name+"Len", 2) == 0 {
		return nil
	}
	b := verifrt.Bytes(name, 1)
	verifrt.Assume(b[0] >= 'a' && b[0] <= 'z')
	return b
}

func Verif_C21_FieldsOfStruct() {
	snake := verifrt.Choice("snakeCase", 2) == 1
	def := []int{c21Never, c21Empty, c21Zero}[verifrt.Choice("defaultOmit", 3)]
	var v C21Src
	v.PlainField, v.Renamed, v.Never, v.Zero = verifrt.U64("plain"), verifrt.U64("renamed"), verifrt.U64("never"), verifrt.U64("zero")
	str, strDefault, blank := c21Str("str"), c21Str("strDefault"), c21Str("blank")
	v.Str, v.StrDefault, v.Blank = string(str), string(strDefault), string(blank)
	switch verifrt.Choice("bytes", 3) {
	case 1:
		v.Bytes = []byte{}
	case 2:
		v.Bytes = []byte{verifrt.U8("byte")}
	}
	var pointee uint64
	if verifrt.Choice("ptr", 2) == 1 {
		pointee = verifrt.U64("pointee")
		v.Ptr = &pointee
	}
	v.Gone, v.Deep, v.First, v.HTTPServer, v.hidden = verifrt.U64("gone"), verifrt.U64("deep"), verifrt.U64("first"), verifrt.U64("http"), 7

	rows := []c21Row{
		{camel: "First", snake: "first", kind: 'u', u: v.First},
		{camel: "Deep", snake: "deep", kind: 'u', u: v.Deep},
		{camel: "PlainField", snake: "plain_field", kind: 'u', u: v.PlainField},
		{camel: "Other", snake: "other", kind: 'u', u: v.Renamed},
		{camel: "Never", snake: "never", omit: c21Never, kind: 'u', u: v.Never},
		{camel: "Zero", snake: "zero", omit: c21Zero, kind: 'u', u: v.Zero},
		{camel: "Str", snake: "str", omit: c21Empty, kind: 's', s: str},
		{camel: "StrDefault", snake: "str_default", kind: 's', s: strDefault},
		{camel: "Bytes", snake: "bytes", kind: 'b', s: v.Bytes, isNil: v.Bytes == nil},
		{camel: "Ptr", snake: "ptr", kind: 'p', u: pointee, isNil: v.Ptr == nil},
		{camel: "Blank", snake: "blank", omit: c21Empty, kind: 's', s: blank},
		{camel: "HTTPServer", snake: "http_server", omit: c21Zero, kind: 'u', u: v.HTTPServer},
	}

	cfg := configuration.New()
	cfg.Iterator.FieldNameStyle = configuration.FieldNameCamelCase
	if snake {
		cfg.Iterator.FieldNameStyle = configuration.FieldNameSnakeCase
	}
	cfg.Iterator.DefaultFieldOmitBehavior = []configuration.FieldOmitBehavior{0, configuration.OmitFieldNever, configuration.OmitFieldEmpty, configuration.OmitFieldZero}[def]
	rec := &verifh.Rec{}
	r := rules.NewRules(rec, cfg)
	rejected := verifh.Try(func() { NewSession(nil, cfg).NewIterator(r).Iterate(v) })
	verifrt.Reach("iterated")
	verifrt.Assert(!rejected, "the events of the struct are accepted by the validator")

	// expected events
	type exp struct {
		name string
		row  c21Row
	}
	var want []exp
	for _, row := range rows {
		omit := row.omit
		if omit == c21Default {
			omit = def
		}
		keep := true
		switch omit {
		case c21Empty:
			keep = !(row.kind == 's' && len(row.s) == 0 || row.kind == 'b' && len(row.s) == 0 || row.kind == 'p' && row.isNil)
		case c21Zero:
			keep = !(row.kind == 'u' && row.u == 0 || row.kind == 's' && len(row.s) == 0 || row.kind == 'b' && len(row.s) == 0 || row.kind == 'p' && row.isNil)
		}
		if keep {
			name := row.camel
			if snake {
				name = row.snake
			}
			want = append(want, exp{name, row})
		}
	}
	e := rec.Evs
	verifrt.Assert(len(e) >= 5 && e[2].K == verifh.KMap && e[len(e)-2].K == verifh.KEnd && e[len(e)-1].K == verifh.KEndDocument, "one map around the fields")
	e = e[3 : len(e)-2]
	verifrt.Assert(len(e) == 2*len(want), "exactly the kept fields appear, once each")
	for k, w := range want {
		key, val := e[2*k], e[2*k+1]
		verifrt.Assert(key.K == verifh.KStringArray && string(key.S) == w.name, "field k appears under its configured or tagged name, in tag order")
		switch w.row.kind {
		case 'u':
			verifrt.Assert(val.K == verifh.KPosInt && val.U == w.row.u, "integer field contents")
		case 's':
			verifrt.Assert(val.K == verifh.KStringArray && verifrt.BytesEq(val.S, w.row.s), "string field contents")
		case 'b':
			if w.row.isNil {
				verifrt.Assert(val.K == verifh.KNull || (val.K == verifh.KArray && len(val.S) == 0), "nil byte slice contents")
			} else {
				verifrt.Assert(val.K == verifh.KArray && verifrt.BytesEq(val.S, w.row.s), "byte slice field contents")
			}
		case 'p':
			if w.row.isNil {
				verifrt.Assert(val.K == verifh.KNull, "nil pointer field is null")
			} else {
				verifrt.Assert(val.K == verifh.KPosInt && val.U == w.row.u, "pointer field contents")
			}
		}
	}
}
