//verif:package github.com/kstenerud/go-concise-encoding/builder
//verif:config cap=300
//verif:bounds unmarshal side: a struct with embedded structs nested four deep (10 fields, all named by the document, symbolic values); a map of one key/value pair with a key of 1..4 symbolic ASCII bytes, and of 2 (quick) / 3 (thorough) pairs with keys of 1..2 bytes, into a struct with 5 reachable fields (plain, tagged name, name with underscore, field of an embedded struct, unexported); every value a symbolic uint64; case-insensitive matching on and off
//verif:assume the real builder Session/BuilderEventReceiver/structBuilder run on the engine's reflect emulation (New, Elem, Field, SetUint, Type.Field, tags) and a sequential model of sync.Map/WaitGroup; keys are ASCII (strings.ToLower on non-ASCII runs the Unicode tables and is outside the bound)
package builder

import (
	"github.com/kstenerud/go-concise-encoding/ce/events"
	"github.com/kstenerud/go-concise-encoding/configuration"
	"github.com/kstenerud/go-concise-encoding/internal/verifh"
	"github.com/kstenerud/go-concise-encoding/internal/verifrt"
)

type C21Inner struct {
	In uint64
}

type C21Dst struct {
	Ab  uint64
	Cd  uint64 `ce:"name=x"`
	E_f uint64
	C21Inner
	hid uint64
}

// embedded structs nested four deep, two fields at every level
type C21E4 struct{ P4, Q4 uint64 }
type C21E3 struct {
	C21E4
	P3, Q3 uint64
}
type C21E2 struct {
	C21E3
	P2, Q2 uint64
}
type C21E1 struct {
	C21E2
	P1, Q1 uint64
}
type C21Deep struct {
	C21E1
	P0, Q0 uint64
}

// Every field of a deeply embedded struct is reachable under its own name.
func Verif_C21_DeepEmbeddedKeys() {
	names := []string{"P0", "Q0", "P1", "Q1", "P2", "Q2", "P3", "Q3", "P4", "Q4"}
	vals := make([]uint64, len(names))
	for i := range vals {
		vals[i] = verifrt.U64("value")
	}
	first := verifrt.Choice("firstKey", len(names)) // keys arrive in any rotation of the declaration order
	cfg := configuration.New()
	r := NewSession(nil, cfg).NewBuilderFor(C21Deep{})
	rejected := verifh.Try(func() {
		r.OnBeginDocument()
		r.OnVersion(0)
		r.OnMap()
		for k := range names {
			i := (first + k) % len(names)
			r.OnStringlikeArray(events.ArrayTypeString, names[i])
			r.OnPositiveInt(vals[i])
		}
		r.OnEndContainer()
		r.OnEndDocument()
	})
	verifrt.Reach("built")
	verifrt.Assert(!rejected, "a map naming every field unmarshals")
	got, ok := r.GetBuiltObject().(*C21Deep)
	verifrt.Assert(ok && got != nil, "a struct of the template's type is built")
	have := []uint64{got.P0, got.Q0, got.P1, got.Q1, got.P2, got.Q2, got.P3, got.Q3, got.P4, got.Q4}
	ok2 := true
	for i := range have {
		ok2 = verifrt.And(ok2, have[i] == vals[i])
	}
	verifrt.Assert(ok2, "each field of every embedding level holds the value given under its name")
}

// c21Norm is the documented key normalisation: ASCII lower case, '_' and ' ' removed.
func c21Norm(s []byte) []byte {
	var out []byte
	for _, c := range s {
		if c == '_' || c == ' ' {
			continue
		}
		if c >= 'A' && c <= 'Z' {
			c += 32
		}
		out = append(out, c)
	}
	return out
}

func c21Eq(a []byte, b string) bool {
	if len(a) != len(b) {
		return false
	}
	ok := true
	for i := range a {
		ok = verifrt.And(ok, a[i] == b[i])
	}
	return ok
}

// One key of 1..4 bytes: the whole matching rule.
func Verif_C21_KeyToField() { c21Keys(1, 4) }

// Two (thorough: three) keys of 1..2 bytes: order, last key wins, other fields undisturbed.
func Verif_C21_KeysToFields() {
	if verifrt.Thorough() {
		c21Keys(3, 2)
		return
	}
	c21Keys(2, 2)
}

func c21Keys(n, maxLen int) {
	caseInsensitive := verifrt.Choice("caseInsensitive", 2) == 1
	keys := make([][]byte, n)
	vals := make([]uint64, n)
	for k := range keys {
		keys[k] = verifrt.Bytes("key", verifrt.Choice("keyLen", maxLen)+1)
		for _, c := range keys[k] {
			verifrt.Assume(c >= 0x20 && c < 0x7f)
		}
		vals[k] = verifrt.U64("value")
	}
	cfg := configuration.New()
	cfg.Builder.CaseInsensitiveStructFieldNames = caseInsensitive
	r := NewSession(nil, cfg).NewBuilderFor(C21Dst{})
	rejected := verifh.Try(func() {
		r.OnBeginDocument()
		r.OnVersion(0)
		r.OnMap()
		for k := range keys {
			r.OnStringlikeArray(events.ArrayTypeString, string(keys[k]))
			r.OnPositiveInt(vals[k])
		}
		r.OnEndContainer()
		r.OnEndDocument()
	})
	verifrt.Reach("built")
	verifrt.Assert(!rejected, "keys that match no field are skipped, not an error")
	got, ok := r.GetBuiltObject().(*C21Dst)
	verifrt.Assert(ok && got != nil, "a struct of the template's type is built")
	// reference: assign in document order
	names := []string{"Ab", "x", "E_f", "In"}
	var want [4]uint64
	var decided [4]bool // false where the statement does not say (case-sensitive mode, key equal to the folded name only)
	for f := range decided {
		decided[f] = true
	}
	for k := range keys {
		for f, name := range names {
			if caseInsensitive {
				if c21Eq(c21Norm(keys[k]), string(c21Norm([]byte(name)))) {
					want[f] = vals[k]
					verifrt.Reach("key-matched-folded")
				}
			} else if c21Eq(keys[k], name) {
				want[f] = vals[k]
				decided[f] = true
				verifrt.Reach("key-matched-exact")
			} else if c21Eq(keys[k], string(c21Norm([]byte(name)))) {
				// the statement is silent on a key that equals the folded name while matching is case-sensitive
				decided[f] = false
			}
		}
	}
	have := [4]uint64{got.Ab, got.Cd, got.E_f, got.In}
	for f := range names {
		if decided[f] {
			verifrt.Assert(have[f] == want[f], "each field holds the value of the last key that names it, other fields are undisturbed")
		}
	}
	verifrt.Assert(got.hid == 0, "unexported fields are never set")
}
