//verif:package github.com/kstenerud/go-concise-encoding/internal/verifh/c02
//verif:config cap=300 steps=400000000 paths=20000 timeout=120000 maxsec=1800
//verif:bounds whole-document CTE round trips through the real CTE encoder and the real CTE decoder (ANTLR lexer, parser and listener executed by the engine) behind the real rules validator: integers 0..255 (quick: 29 boundary values, positive at top level, negative as a map key; thorough: all values, both signs, 2 positions); strings of one symbolic character from a 24-character set (letters, digit, space, the characters that need escaping, a 2-byte and a 3-byte code point) whole and as map key; typed arrays uint8/int16 with one symbolic element (quick: the digit-count and sign boundaries); 11 structural templates with an 8-bit payload (quick: 12 boundary values, thorough: 72) (nested containers, comments, markers and references, record types and records, nodes, edges, media, custom binary, UID, NaN, booleans, null, decimal and binary floats, dates, times and timestamps with UTC, UTC-offset and lat/long zones (area/location zones load the host's zone database and are not generated))
//verif:assume every symbolic character reaches the lexer's table lookups, where the engine enumerates its feasible values with the solver (one path per value): the bounds are small on purpose; equality of streams as in C01 (integers by value, arrays joined, comments keep their text, padding disappears)
package c02

import (
	compact_float "github.com/kstenerud/go-compact-float"
	compact_time "github.com/kstenerud/go-compact-time"
	"github.com/kstenerud/go-concise-encoding/ce/events"
	"github.com/kstenerud/go-concise-encoding/configuration"
	"github.com/kstenerud/go-concise-encoding/cte"
	"github.com/kstenerud/go-concise-encoding/internal/verifh"
	"github.com/kstenerud/go-concise-encoding/internal/verifrt"
	"github.com/kstenerud/go-concise-encoding/rules"
)

// roundTrip: rules -> CTE encoder -> text -> CTE decoder -> rules.
func roundTrip(send func(r events.DataEventReceiver)) (sent, got *verifh.Rec, text []byte, err error) {
	cfg := configuration.New()
	sent = &verifh.Rec{}
	if verifh.Try(func() { send(rules.NewRules(sent, cfg)) }) {
		verifrt.Assume(false)
	}
	sink := &verifh.Sink{}
	enc := cte.NewEncoder(cfg)
	enc.PrepareToEncode(sink)
	send(rules.NewRules(enc, cfg))
	text = sink.Buf
	got = &verifh.Rec{}
	err = cte.NewDecoder(cfg).DecodeDocument(text, rules.NewRules(got, cfg))
	return
}

func sameEvent(s, g verifh.Ev) bool {
	okS, negS, magS := verifh.IntValue(s)
	okG, negG, magG := verifh.IntValue(g)
	if okS || okG {
		return verifrt.And(okS, okG, magS == magG, verifrt.Or(negS == negG, magS == 0))
	}
	if s.K == verifh.KTime && g.K == verifh.KTime {
		return s.T.IsEquivalentTo(g.T)
	}
	return verifrt.And(s.K == g.K, s.U == g.U, s.U2 == g.U2, s.B == g.B, verifrt.BytesEq(s.S, g.S), verifrt.BytesEq(s.S2, g.S2))
}

// normalize joins chunked arrays, turns whole string-like events into array
// events and drops padding.
func normalize(in []verifh.Ev) []verifh.Ev {
	var out []verifh.Ev
	for i := 0; i < len(in); i++ {
		e := in[i]
		switch e.K {
		case verifh.KPadding:
		case verifh.KStringArray:
			out = append(out, verifh.Ev{K: verifh.KArray, U: e.U, U2: uint64(len(e.S)), S: e.S})
		case verifh.KArrayBegin:
			acc := verifh.Ev{K: verifh.KArray, U: e.U}
			for i+1 < len(in) && (in[i+1].K == verifh.KArrayChunk || in[i+1].K == verifh.KArrayData) {
				i++
				if in[i].K == verifh.KArrayChunk {
					acc.U2 += in[i].U
				} else {
					acc.S = append(acc.S, in[i].S...)
				}
			}
			out = append(out, acc)
		case verifh.KMedia, verifh.KCustomBinary, verifh.KCustomText:
			out = append(out, e)
		case verifh.KMediaBegin, verifh.KCustomBegin:
			acc := verifh.Ev{K: verifh.KMedia, S2: e.S2}
			if e.K == verifh.KCustomBegin {
				acc = verifh.Ev{K: verifh.KCustomBinary, U: e.U2}
				if e.U == uint64(events.ArrayTypeCustomText) {
					acc.K = verifh.KCustomText
				}
			}
			for i+1 < len(in) && (in[i+1].K == verifh.KArrayChunk || in[i+1].K == verifh.KArrayData) {
				i++
				if in[i].K == verifh.KArrayData {
					acc.S = append(acc.S, in[i].S...)
				}
			}
			out = append(out, acc)
		default:
			out = append(out, e)
		}
	}
	return out
}

func assertSame(sent, got *verifh.Rec, err error) {
	verifrt.Reach("decoded")
	if err != nil {
		verifrt.Note("decode error: " + err.Error())
	}
	verifrt.Assert(err == nil, "the CTE text the encoder wrote is accepted by the CTE decoder and the validator")
	if err != nil {
		return
	}
	s, g := normalize(sent.Evs), normalize(got.Evs)
	verifrt.Assert(len(s) == len(g), "same number of events after normalisation")
	if len(s) != len(g) {
		return
	}
	ok := true
	for i := range s {
		ok = verifrt.And(ok, sameEvent(s[i], g[i]))
	}
	verifrt.Assert(ok, "the decoded stream carries the same data as the encoded one")
}

func doc(value func(r events.DataEventReceiver)) func(r events.DataEventReceiver) {
	return func(r events.DataEventReceiver) {
		r.OnBeginDocument()
		r.OnVersion(0)
		value(r)
		r.OnEndDocument()
	}
}

func position(pos int, value func(r events.DataEventReceiver)) func(r events.DataEventReceiver) {
	return doc(func(r events.DataEventReceiver) {
		switch pos {
		case 0:
			value(r)
		case 1:
			r.OnList()
			r.OnTrue()
			value(r)
			r.OnEndContainer()
		case 2:
			r.OnMap()
			value(r)
			r.OnNull()
			r.OnEndContainer()
		case 3:
			r.OnMap()
			r.OnStringlikeArray(events.ArrayTypeString, "k")
			value(r)
			r.OnEndContainer()
		}
	})
}

func Verif_C02_Integers() {
	v := uint64(verifrt.U8("v"))
	var neg bool
	var pos int
	if verifrt.Thorough() {
		neg = verifrt.Choice("negative", 2) == 1
		pos = verifrt.Choice("pos", 2) * 2 // top level, map key
	} else {
		if verifrt.Choice("form", 2) == 1 { // quick: positive at top level, negative as a map key
			neg, pos = true, 2
		}
		verifrt.Assume(v <= 20 || (v >= 98 && v <= 101) || v == 127 || v == 128 || v >= 254) // quick: digit-count boundaries
	}
	sent, got, _, err := roundTrip(position(pos, func(r events.DataEventReceiver) {
		if neg {
			verifrt.Assume(v != 0)
			r.OnNegativeInt(v)
		} else {
			r.OnPositiveInt(v)
		}
	}))
	assertSame(sent, got, err)
}

var charSet = []string{"a", "Z", "7", " ", "\"", "\\", "\t", "\n", "\r", "/", "*", "|", "[", "]", "{", "}", "<", ">", "=", "@", "$", "&", "é", "€"}

func Verif_C02_Strings() {
	// the character is picked by the engine (it changes the text's length);
	// the resource id / custom text forms go through the same writer
	c := charSet[verifrt.Choice("char", len(charSet))]
	kind := verifrt.Choice("kind", 3)
	pos := verifrt.Choice("pos", 3)
	if kind != 0 {
		pos = 1
	}
	sent, got, _, err := roundTrip(position(pos, func(r events.DataEventReceiver) {
		switch kind {
		case 0:
			r.OnStringlikeArray(events.ArrayTypeString, "x"+c+"y")
		case 1:
			r.OnStringlikeArray(events.ArrayTypeResourceID, "r:"+c)
		case 2:
			r.OnCustomText(3, c+"t")
		}
	}))
	assertSame(sent, got, err)
}

func Verif_C02_TypedArrays() {
	which := verifrt.Choice("type", 2)
	e := verifrt.U8("element")
	pos := 0
	if verifrt.Thorough() {
		pos = verifrt.Choice("pos", 2)
	} else {
		verifrt.Assume(e < 16 || e >= 240 || e == 100 || e == 128) // quick: the digit-count and sign boundaries
	}
	sent, got, _, err := roundTrip(position(pos, func(r events.DataEventReceiver) {
		switch which {
		case 0:
			r.OnArray(events.ArrayTypeUint8, 3, []byte{1, e, 255})
		case 1:
			r.OnArray(events.ArrayTypeInt16, 2, []byte{e, 0x80, 0x34, 0x12})
		}
	}))
	assertSame(sent, got, err)
}

func Verif_C02_Structures() {
	which := verifrt.Choice("which", 11)
	v := uint64(verifrt.U8("v"))
	if !verifrt.Thorough() {
		verifrt.Assume(v < 4 || v >= 252 || v == 9 || v == 10 || v == 99 || v == 100) // quick: boundaries
	} else {
		verifrt.Assume(v < 24 || (v >= 96 && v < 136) || v >= 248) // thorough: 72 values around every digit-count and sign boundary
	}
	timeVariant := 0
	if which == 8 {
		timeVariant = verifrt.Choice("timeVariant", 3)
		verifrt.Assume(v == 0) // nothing symbolic in the time template
	}
	sent, got, _, err := roundTrip(doc(func(r events.DataEventReceiver) {
		switch which {
		case 0:
			r.OnList()
			r.OnList()
			r.OnMap()
			r.OnPositiveInt(v)
			r.OnList()
			r.OnEndContainer()
			r.OnEndContainer()
			r.OnEndContainer()
			r.OnNull()
			r.OnEndContainer()
		case 1:
			r.OnComment(false, []byte(" a comment "))
			r.OnList()
			r.OnComment(true, []byte(" multi\nline "))
			r.OnPositiveInt(v)
			r.OnPadding()
			r.OnTrue()
			r.OnComment(false, []byte("x"))
			r.OnEndContainer()
		case 2:
			r.OnList()
			r.OnMarker([]byte("a1"))
			r.OnMap()
			r.OnPositiveInt(v)
			r.OnFalse()
			r.OnEndContainer()
			r.OnReferenceLocal([]byte("a1"))
			r.OnReferenceLocal([]byte("fwd"))
			r.OnMarker([]byte("fwd"))
			r.OnStringlikeArray(events.ArrayTypeString, "s")
			r.OnEndContainer()
		case 3:
			r.OnRecordType([]byte("rt"))
			r.OnStringlikeArray(events.ArrayTypeString, "k1")
			r.OnPositiveInt(2)
			r.OnEndContainer()
			r.OnList()
			r.OnRecord([]byte("rt"))
			r.OnPositiveInt(v)
			r.OnNull()
			r.OnEndContainer()
			r.OnEndContainer()
		case 4:
			r.OnNode()
			r.OnPositiveInt(v)
			r.OnNode()
			r.OnNull()
			r.OnEndContainer()
			r.OnStringlikeArray(events.ArrayTypeString, "leaf")
			r.OnEndContainer()
		case 5:
			r.OnEdge()
			r.OnPositiveInt(v)
			r.OnStringlikeArray(events.ArrayTypeResourceID, "http://x.y/z")
			r.OnStringlikeArray(events.ArrayTypeString, "dst")
			r.OnEndContainer()
		case 6:
			r.OnList()
			r.OnMedia("text/x", []byte{1, byte(v), 3})
			r.OnCustomBinary(v, []byte{byte(v), 0xff})
			r.OnUID([]byte{0, 1, 2, 3, 4, 5, 6, 7, 8, 9, 10, 11, 12, 13, 14, byte(v)})
			r.OnEndContainer()
		case 7:
			r.OnList()
			r.OnNan(v&1 == 1)
			r.OnFloat(1.5)
			r.OnFloat(-0.015625)
			r.OnDecimalFloat(compact_float.DFloatValue(-2, int64(v)*10+1)) // no trailing zero: the text keeps coefficient and exponent
			r.OnBoolean(v&2 == 2)
			r.OnEndContainer()
		case 8:
			// dates and times with fixed fields (the time-zone kernel with symbolic
			// hundredths is the subject of the lemma entries; symbolic digits here
			// would run regexp and ParseFloat on symbolic text)
			k := timeVariant
			r.OnList()
			r.OnTime(compact_time.NewDate([]int{2000, -45, 12345}[k], 2, 28))
			r.OnTime(compact_time.NewTime(23, 59, 7*k, 500000000*(k%2), compact_time.TZAtLatLong(1234-1300*k, -99*k)))
			r.OnTime(compact_time.NewTimestamp(1999, 12, 31, 0, 0, k, 0, compact_time.TZAtUTC()))
			r.OnTime(compact_time.NewTime(1, 2, 3, 0, compact_time.TZWithMiutesOffsetFromUTC(-90*k)))
			r.OnEndContainer()
		case 10: // a chunked uint16 array whose last element arrives as 1 byte + 1 byte, followed by a sibling
			r.OnList()
			r.OnArrayBegin(events.ArrayTypeUint16)
			r.OnArrayChunk(2, false)
			r.OnArrayData([]byte{1, byte(v), 3})
			r.OnArrayData([]byte{4})
			r.OnPositiveInt(5)
			r.OnEndContainer()
		case 9:
			r.OnMap()
			r.OnNegativeInt(v + 1)
			r.OnArray(events.ArrayTypeBit, 10, []byte{byte(v), 1})
			r.OnStringlikeArray(events.ArrayTypeString, "a b")
			r.OnArray(events.ArrayTypeFloat32, 1, []byte{0, 0, 0xc0, 0x3f})
			r.OnEndContainer()
		}
	}))
	assertSame(sent, got, err)
}
