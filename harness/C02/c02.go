//verif:package github.com/kstenerud/go-concise-encoding/cte
//verif:stub regexp.Compile => github.com/kstenerud/go-concise-encoding/cte.c02Compile
//verif:stub (*regexp.Regexp).FindAllStringSubmatch => github.com/kstenerud/go-concise-encoding/cte.c02Find
//verif:stub github.com/kstenerud/go-concise-encoding/cte.parseCoord => github.com/kstenerud/go-concise-encoding/cte.c02ParseCoord
//verif:bounds the one kernel of C02 within reach: time-zone latitude/longitude hundredths, every value in the valid range (latitude -9000..9000, longitude -18000..18000) as solver variables, written by the real cte.Writer.WriteTime and read back by the real parseTimezone
//verif:assume fmt's %.2f is the engine's fixed-point model (digits of round-half-even(|x|*100) on the exact binary value; tested against strconv on 1.6M values in engine/sym); the regexp is replaced by a splitter at '/', and strconv.ParseFloat by its contract on plain decimal texts (the double nearest to the decimal value, computed as integer/10^k); native replay runs the real regexp and ParseFloat. Everything else in C02 (string escaping, comments, numeric text, other time forms, whole-document round trips) goes through the ANTLR lexer/parser and is outside reach
package cte

import (
	"regexp"

	compact_time "github.com/kstenerud/go-compact-time"
	"github.com/kstenerud/go-concise-encoding/internal/verifh"
	"github.com/kstenerud/go-concise-encoding/internal/verifrt"
)

// The contract stubs stand in only while a reader-lemma entry runs; everywhere
// else (the whole-document round trips in roundtrip.go) they pass through to
// the real regexp / ParseFloat.
var c02Contract bool

func c02Compile(expr string) (*regexp.Regexp, error) {
	if !c02Contract {
		return regexp.Compile(expr)
	}
	return nil, nil
}

// Stands for `(-?\d+(\.\d+)?)/(-?\d+(\.\d+)?)$` on "lat/long": groups 1 and 3
// are the two number texts.
func c02Find(re *regexp.Regexp, s string, n int) [][]string {
	if !c02Contract {
		return re.FindAllStringSubmatch(s, n)
	}
	slash := -1
	for i := 0; i < len(s); i++ {
		if s[i] == '/' {
			slash = i
		}
	}
	if slash < 0 {
		return nil
	}
	return [][]string{{s, s[:slash], "", s[slash+1:], ""}}
}

// strconv.ParseFloat on a plain decimal text returns the double nearest to the
// decimal value; for at most 15 significant digits that is integer / 10^k
// (both exact doubles, one correctly rounded division).
func c02ParseCoord(str string) float64 {
	if !c02Contract {
		return parseCoord(str)
	}
	neg := false
	i := 0
	if len(str) > 0 && str[0] == '-' {
		neg = true
		i = 1
	}
	if i >= len(str) || len(str)-i > 15 {
		panic("c02ParseCoord: text outside the contract")
	}
	var num, den int64 = 0, 1
	seenDot := false
	for ; i < len(str); i++ {
		c := str[i]
		if c == '.' && !seenDot {
			seenDot = true
			continue
		}
		if c < '0' || c > '9' {
			panic("strconv.ParseFloat: invalid syntax")
		}
		num = num*10 + int64(c-'0')
		if seenDot {
			den *= 10
		}
	}
	f := float64(num) / float64(den)
	if neg {
		f = -f
	}
	return f
}

// One coordinate is symbolic per entry (the two are independent in the code;
// separate entries let the float queries run in parallel).
func c02Run(lat, long int) {
	verifrt.Assume(lat >= -9000 && lat <= 9000)
	verifrt.Assume(long >= -18000 && long <= 18000)
	want := compact_time.TZAtLatLong(lat, long)
	// Reader lemma: the text is the one the writer lemma (c02Writer) proves
	// WriteTime produces; the native replay takes it from the real writer.
	text := "12:30:45/" + string(c02Reference(lat)) + "/" + string(c02Reference(long))
	if !verifrt.Symbolic() {
		sink := &verifh.Sink{}
		w := NewWriter()
		w.SetWriter(sink)
		w.WriteTime(compact_time.NewTime(12, 30, 45, 0, want))
		text = string(sink.Buf)
	}
	slash := 0
	for slash < len(text) && text[slash] != '/' {
		slash++
	}
	verifrt.Assert(slash < len(text), "the time text carries a time zone suffix")
	c02Contract = verifrt.Symbolic()
	tz := parseTimezone(text[slash:])
	verifrt.Reach("parsed")
	verifrt.Known("KF-C02-latlong-truncated", verifrt.Or(int(tz.LatitudeHundredths) != lat, int(tz.LongitudeHundredths) != long))
	verifrt.Assert(tz.Type == want.Type, "latitude/longitude time zone form")
	verifrt.Assert(int(tz.LatitudeHundredths) == lat, "latitude hundredths survive the CTE text")
	verifrt.Assert(int(tz.LongitudeHundredths) == long, "longitude hundredths survive the CTE text")
}

// c02Reference renders hundredths as the decimal text sign, whole degrees,
// '.', two digits (integer arithmetic only).
func c02Reference(h int) []byte {
	var out []byte
	if h < 0 {
		out = append(out, '-')
		h = -h
	}
	whole, frac := h/100, h%100
	switch {
	case whole >= 100:
		out = append(out, byte('0'+whole/100), byte('0'+whole/10%10), byte('0'+whole%10))
	case whole >= 10:
		out = append(out, byte('0'+whole/10), byte('0'+whole%10))
	default:
		out = append(out, byte('0'+whole))
	}
	return append(out, '.', byte('0'+frac/10), byte('0'+frac%10))
}

// Writer lemma: the text WriteTime produces for a latitude/longitude zone is
// "/<lat>/<long>" with each coordinate rendered as sign, degrees, '.', two digits.
func c02Writer(lat, long int) {
	verifrt.Assume(lat >= -9000 && lat <= 9000)
	verifrt.Assume(long >= -18000 && long <= 18000)
	sink := &verifh.Sink{}
	w := NewWriter()
	w.SetWriter(sink)
	w.WriteTime(compact_time.NewTime(12, 30, 45, 0, compact_time.TZAtLatLong(lat, long)))
	want := append([]byte("12:30:45/"), c02Reference(lat)...)
	want = append(want, '/')
	want = append(want, c02Reference(long)...)
	verifrt.Reach("written")
	verifrt.Assert(len(sink.Buf) == len(want), "length of the latitude/longitude text")
	verifrt.Assert(verifrt.BytesEq(sink.Buf, want), "latitude/longitude are written as sign, degrees, '.', two digits")
}

func Verif_C02_LatitudeWriter()  { c02Writer(int(verifrt.I16("latitudeHundredths")), 1234) }
func Verif_C02_LongitudeWriter() { c02Writer(-4321, int(verifrt.I16("longitudeHundredths"))) }

func Verif_C02_LatitudeHundredths() {
	c02Run(int(verifrt.I16("latitudeHundredths")), 1234)
}

func Verif_C02_LongitudeHundredths() {
	c02Run(-4321, int(verifrt.I16("longitudeHundredths")))
}
