//verif:package github.com/kstenerud/go-concise-encoding/cte
//verif:stub regexp.Compile => github.com/kstenerud/go-concise-encoding/cte.c02Compile
//verif:stub (*regexp.Regexp).FindAllStringSubmatch => github.com/kstenerud/go-concise-encoding/cte.c02Find
//verif:stub github.com/kstenerud/go-concise-encoding/cte.parseCoord => github.com/kstenerud/go-concise-encoding/cte.c02ParseCoord
//verif:bounds the one kernel of C02 within reach: time-zone latitude/longitude hundredths, every value in the valid range (latitude -9000..9000, longitude -18000..18000) as solver variables
//verif:assume the writer prints float64(h)/100 with %.2f and strconv.ParseFloat of that text returns float64(h)/100 again (contract stub for regexp + ParseFloat; the identity is checked natively for every h in range by the replay of any counterexample and by TestC02Contract in the harness); everything else in C02 (string escaping, comments, numeric text, other time forms, whole-document round trips) goes through the ANTLR lexer/parser and is outside reach
package cte

import (
	"fmt"
	"regexp"

	compact_time "github.com/kstenerud/go-compact-time"
	"github.com/kstenerud/go-concise-encoding/internal/verifrt"
)

var c02Lat, c02Long float64

func c02Compile(expr string) (*regexp.Regexp, error) { return nil, nil }

// the regexp splits "lat/long" into its two number texts
func c02Find(re *regexp.Regexp, s string, n int) [][]string {
	return [][]string{{"", "lat", "", "long", ""}}
}

// strconv.ParseFloat(fmt.Sprintf("%.2f", float64(h)/100)) == float64(h)/100
func c02ParseCoord(str string) float64 {
	if str == "lat" {
		return c02Lat
	}
	return c02Long
}

// One coordinate is symbolic per entry (the two are independent in the code;
// separate entries let the float queries run in parallel).
func c02Run(lat, long int) {
	verifrt.Assume(lat >= -9000 && lat <= 9000)
	verifrt.Assume(long >= -18000 && long <= 18000)
	// what the CTE encoder writes (cte.Writer.WriteTime): float64(h)/100 printed with %.2f
	c02Lat = float64(lat) / 100
	c02Long = float64(long) / 100
	text := "/0/0" // under the engine the stubs above stand for regexp + ParseFloat (the leading "/d" selects the lat/long form)
	if !verifrt.Symbolic() {
		// native replay: the real text, the real regexp and the real strconv.ParseFloat
		text = fmt.Sprintf("/%.2f/%.2f", c02Lat, c02Long)
	}
	tz := parseTimezone(text)
	want := compact_time.TZAtLatLong(lat, long)
	verifrt.Reach("parsed")
	verifrt.Known("KF-C02-latlong-truncated", verifrt.Or(int(tz.LatitudeHundredths) != lat, int(tz.LongitudeHundredths) != long))
	verifrt.Assert(tz.Type == want.Type, "latitude/longitude time zone form")
	verifrt.Assert(int(tz.LatitudeHundredths) == lat, "latitude hundredths survive the CTE text")
	verifrt.Assert(int(tz.LongitudeHundredths) == long, "longitude hundredths survive the CTE text")
}

func Verif_C02_LatitudeHundredths() {
	c02Run(int(verifrt.I16("latitudeHundredths")), 1234)
}

func Verif_C02_LongitudeHundredths() {
	c02Run(-4321, int(verifrt.I16("longitudeHundredths")))
}
