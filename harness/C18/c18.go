//verif:package github.com/kstenerud/go-concise-encoding/internal/verifh/c18
//verif:bounds *big.Int of 1..3 symbolic words with sign through the CBE encoder and the rules validator; apd.Decimal with a symbolic 1..2 word coefficient, sign and exponent through the CBE encoder
//verif:assume in these two entries the encoders' event entry points are driven directly with pointer-held big numbers (marshal.go runs the real marshalers)
package c18

import (
	"math/big"

	"github.com/cockroachdb/apd/v2"
	"github.com/kstenerud/go-concise-encoding/cbe"
	"github.com/kstenerud/go-concise-encoding/ce/events"
	"github.com/kstenerud/go-concise-encoding/configuration"
	"github.com/kstenerud/go-concise-encoding/cte"
	"github.com/kstenerud/go-concise-encoding/internal/verifh"
	"github.com/kstenerud/go-concise-encoding/internal/verifrt"
	"github.com/kstenerud/go-concise-encoding/rules"
)

func snapshot(b *big.Int) (int, []big.Word) {
	ws := b.Bits()
	cp := make([]big.Word, len(ws))
	copy(cp, ws)
	return b.Sign(), cp
}

func same(b *big.Int, sign int, words []big.Word) bool {
	ws := b.Bits()
	if b.Sign() != sign || len(ws) != len(words) {
		return false
	}
	ok := true
	for i := range ws {
		ok = verifrt.And(ok, ws[i] == words[i])
	}
	return ok
}

func symBig(tag string, nwords int) *big.Int {
	ws := make([]big.Word, nwords)
	for i := range ws {
		ws[i] = big.Word(verifrt.U64(tag))
	}
	verifrt.Assume(ws[nwords-1] != 0)
	b := new(big.Int).SetBits(ws)
	if verifrt.Bool(tag + ".neg") {
		b.Neg(b)
	}
	return b
}

func Verif_C18_BigIntThroughEncoders() {
	which := verifrt.Choice("encoder", 2) * 2 // 0 = CBE encoder, 2 = validator only (the CTE encoder converts to decimal text: symbolic long division, outside reach)
	n := verifrt.Choice("words", 3) + 1
	b := symBig("w", n)
	sign, words := snapshot(b)
	cfg := configuration.New()
	sink := &verifh.Sink{}
	var r events.DataEventReceiver
	switch which {
	case 0:
		enc := cbe.NewEncoder(cfg)
		enc.PrepareToEncode(sink)
		r = rules.NewRules(enc, cfg)
	case 1:
		enc := cte.NewEncoder(cfg)
		enc.PrepareToEncode(sink)
		r = rules.NewRules(enc, cfg)
	case 2:
		r = rules.NewRules(&verifh.Rec{}, cfg)
	}
	panicked := verifh.Try(func() {
		r.OnBeginDocument()
		r.OnVersion(0)
		r.OnBigInt(b)
		r.OnEndDocument()
	})
	verifrt.Reach("encoded")
	verifrt.Assert(!panicked, "encoding a big integer succeeds")
	verifrt.Known("KF-C18-bigint-negated-in-place", verifrt.And(which == 0, sign < 0))
	verifrt.Assert(same(b, sign, words), "the caller's big.Int is unchanged after encoding")
}

func Verif_C18_BigDecimalThroughCBE() {
	n := verifrt.Choice("words", 2) + 1
	coeff := symBig("c", n)
	coeff.Abs(coeff)
	d := &apd.Decimal{Form: apd.Finite, Negative: verifrt.Bool("negative"), Exponent: verifrt.I32("exponent")}
	d.Coeff.Set(coeff)
	sign, words := snapshot(&d.Coeff)
	negBefore, expBefore := d.Negative, d.Exponent
	cfg := configuration.New()
	sink := &verifh.Sink{}
	enc := cbe.NewEncoder(cfg)
	enc.PrepareToEncode(sink)
	r := rules.NewRules(enc, cfg)
	panicked := verifh.Try(func() {
		r.OnBeginDocument()
		r.OnVersion(0)
		r.OnBigDecimalFloat(d)
		r.OnEndDocument()
	})
	verifrt.Reach("encoded")
	verifrt.Assert(!panicked, "encoding a big decimal succeeds")
	verifrt.Assert(verifrt.And(same(&d.Coeff, sign, words), d.Negative == negBefore, d.Exponent == expBefore), "the caller's apd.Decimal is unchanged after encoding")
}
