//verif:package github.com/kstenerud/go-concise-encoding/internal/verifh/c18
//verif:config cap=300
//verif:bounds the real cbe.Marshaler (and cte.Marshaler for the value without big numbers) on a struct reaching a pointer-held big.Int of 1..2 symbolic words with sign, a big.Int held by value, a map of pointer-held big.Ints, a *apd.Decimal with symbolic coefficient word and sign (one of the numbers and one of the plain payloads symbolic per run), a []uint16, a []string, a map[string]uint8 and a pointer to a struct; everything reachable is compared with a snapshot taken before
//verif:assume reflect, sync.Map and WaitGroup are the engine's emulation / sequential model; *big.Float (decimal text conversion) is not generated; the CTE marshaler is run on the number-free part only (decimal text of symbolic big numbers is outside reach)
package c18

import (
	"math/big"

	"github.com/cockroachdb/apd/v2"
	"github.com/kstenerud/go-concise-encoding/cbe"
	"github.com/kstenerud/go-concise-encoding/configuration"
	"github.com/kstenerud/go-concise-encoding/cte"
	"github.com/kstenerud/go-concise-encoding/internal/verifh"
	"github.com/kstenerud/go-concise-encoding/internal/verifrt"
)

type Plain struct {
	U []uint16
	S []string
	M map[string]uint8
	P *Leaf
}

type Leaf struct{ X int64 }

type Numbers struct {
	PB *big.Int
	VB big.Int
	MB map[string]*big.Int
	PD *apd.Decimal
	Plain
}

// plain: one payload is symbolic per run (every symbolic number multiplies the
// paths by its number of encodings / digit counts); which one is chosen.
func plain() (Plain, func() bool) {
	p := Plain{U: []uint16{1, 2}, S: []string{"a", "bc"}, M: map[string]uint8{"k": 3}, P: &Leaf{X: -4}}
	switch verifrt.Choice("symbolicField", 3) {
	case 0:
		p.U[1] = verifrt.U16("u1")
	case 1:
		p.M["k"] = verifrt.U8("m")
	case 2:
		p.P.X = int64(verifrt.I16("x"))
	}
	u0, u1, m, x, leaf := p.U[0], p.U[1], p.M["k"], p.P.X, p.P
	return p, func() bool {
		return verifrt.And(len(p.U) == 2, p.U[0] == u0, p.U[1] == u1, len(p.S) == 2, p.S[0] == "a", p.S[1] == "bc",
			len(p.M) == 1, p.M["k"] == m, p.P == leaf, p.P.X == x)
	}
}

func Verif_C18_MarshalLeavesValueUnchanged() {
	p, plainSame := plain()
	n := verifrt.Choice("words", 2) + 1
	v := Numbers{MB: map[string]*big.Int{"one": big.NewInt(-77)}, Plain: p}
	v.VB.SetInt64(-5)
	v.PB = big.NewInt(12345)
	coef := big.NewInt(1234567)
	switch verifrt.Choice("symbolicNumber", 4) {
	case 0:
		v.PB = symBig("pb", n)
	case 1:
		v.VB.Set(symBig("vb", n))
	case 2:
		v.MB["one"] = symBig("mb", n)
	case 3:
		coef = symBig("coef", 1)
	}
	v.PD = apd.NewWithBigInt(coef, []int32{-2, 0, 3}[verifrt.Choice("exp", 3)])
	pbS, pbW := snapshot(v.PB)
	vbS, vbW := snapshot(&v.VB)
	mbS, mbW := snapshot(v.MB["one"])
	pdS, pdW := snapshot(&v.PD.Coeff)
	pdExp, pdNeg, pdForm := v.PD.Exponent, v.PD.Negative, v.PD.Form
	pb, mb, pd := v.PB, v.MB["one"], v.PD
	err := cbe.NewMarshaler(configuration.New()).Marshal(&v, &verifh.Sink{})
	verifrt.Reach("marshaled")
	verifrt.Assert(err == nil, "marshaling succeeds")
	verifrt.Assert(v.PB == pb && v.MB["one"] == mb && v.PD == pd && len(v.MB) == 1, "pointers and map entries are the same objects")
	verifrt.Assert(same(v.PB, pbS, pbW), "pointer-held big.Int unchanged")
	verifrt.Assert(same(&v.VB, vbS, vbW), "big.Int held by value unchanged")
	verifrt.Assert(same(v.MB["one"], mbS, mbW), "big.Int in a map unchanged")
	verifrt.Assert(same(&v.PD.Coeff, pdS, pdW) && v.PD.Exponent == pdExp && v.PD.Negative == pdNeg && v.PD.Form == pdForm, "pointer-held apd.Decimal unchanged")
	verifrt.Assert(plainSame(), "slices, strings, map and pointed-to struct unchanged")
}

func Verif_C18_CTEMarshalLeavesValueUnchanged() {
	p, plainSame := plain()
	err := cte.NewMarshaler(configuration.New()).Marshal(&p, &verifh.Sink{})
	verifrt.Reach("marshaled")
	verifrt.Assert(err == nil, "marshaling succeeds")
	verifrt.Assert(plainSame(), "slices, strings, map and pointed-to struct unchanged")
}
