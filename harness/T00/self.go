//verif:package github.com/kstenerud/go-concise-encoding/internal/verifself
//verif:config cap=300
package verifself

import (
	"fmt"
	"strconv"
	"strings"

	"github.com/kstenerud/go-concise-encoding/internal/verifrt"
)

func abs(x int32) int32 {
	if x < 0 {
		return -x
	}
	return x
}

// holds except for MinInt32
func Verif_T00_Abs() {
	x := verifrt.I32("x")
	verifrt.Known("KF-T00-minint", x == -2147483648)
	r := abs(x)
	verifrt.Reach("done")
	verifrt.Assert(r >= 0, "abs non-negative")
}

func Verif_T00_Sum() {
	b := verifrt.Bytes("b", 3)
	s := 0
	for _, v := range b {
		if v > 100 {
			s += 100
		} else {
			s += int(v)
		}
	}
	verifrt.Assert(s <= 300, "sum bounded")
	m := map[string]int{}
	m[string(b[:1])] = 1
	m["a"] = 2
	verifrt.Assert(len(m) >= 1 && len(m) <= 2, "map size")
	if len(m) == 1 {
		verifrt.Reach("collide")
		verifrt.Assert(b[0] == 'a', "collide means a")
	}
}

func Verif_T00_Panic() {
	x := verifrt.U8("x")
	arr := []int{1, 2, 3}
	defer func() {
		if r := recover(); r != nil {
			verifrt.Reach("recovered")
			verifrt.Assert(x >= 3, "panics only out of range")
		}
	}()
	_ = arr[x]
	verifrt.Assert(x < 3, "in range")
}

// The engine's symbolic fmt.Sprintf model must agree with strconv (whose real
// source is interpreted) for every value; a disagreement shows up as a
// violation that does NOT reproduce natively (replay-mismatch).
func zeroPad(s string, width int) string {
	neg := len(s) > 0 && s[0] == '-'
	if neg {
		s = s[1:]
	}
	for len(s)+boolInt(neg) < width {
		s = "0" + s
	}
	if neg {
		s = "-" + s
	}
	return s
}

func boolInt(b bool) int {
	if b {
		return 1
	}
	return 0
}

func Verif_T00_SprintfModel() {
	specs := []string{"%v", "%d", "%b", "%08b", "%o", "%03o", "%x", "%02x", "%X", "%016b", "%06o", "%04x"}
	bases := []int{10, 10, 2, 2, 8, 8, 16, 16, 16, 2, 8, 16}
	widths := []int{0, 0, 0, 8, 0, 3, 0, 2, 0, 16, 6, 4}
	k := verifrt.Choice("spec", len(specs))
	kind := verifrt.Choice("kind", 4)
	var got, want string
	switch kind {
	case 0:
		x := verifrt.U8("x")
		got = fmt.Sprintf(specs[k], x)
		want = zeroPad(strconv.FormatUint(uint64(x), bases[k]), widths[k])
	case 1:
		x := verifrt.I8("x")
		got = fmt.Sprintf(specs[k], x)
		want = zeroPad(strconv.FormatInt(int64(x), bases[k]), widths[k])
	case 2:
		x := verifrt.U16("x")
		got = fmt.Sprintf(specs[k], x)
		want = zeroPad(strconv.FormatUint(uint64(x), bases[k]), widths[k])
	case 3:
		x := verifrt.I16("x")
		got = fmt.Sprintf(specs[k], x)
		want = zeroPad(strconv.FormatInt(int64(x), bases[k]), widths[k])
	}
	if specs[k] == "%X" {
		want = strings.ToUpper(want)
	}
	verifrt.Assert(got == want, "symbolic Sprintf model equals strconv")
}

type t00S3 struct{ a, b, c uint64 }
type t00SP struct {
	p *int
	a [70]uint64
}

// The engine's append must leave the capacity the Go runtime leaves (aliasing
// after append depends on it). The constants come from a native go1.23 run.
func Verif_T00_AppendCapacity() {
	var a []int
	var b []byte
	var c []t00S3
	var d []string
	var e []t00SP
	var f []uint16
	h := uint64(0)
	for i := 0; i < 600; i++ {
		a = append(a, i)
		b = append(b, 1)
		c = append(c, t00S3{})
		d = append(d, "")
		f = append(f, 1)
		if i < 40 {
			e = append(e, t00SP{})
		}
		for _, x := range []int{cap(a), cap(b), cap(c), cap(d), cap(e), cap(f)} {
			h = h*1000003 + uint64(x)
		}
	}
	g := append([]byte{1, 2, 3}, make([]byte, 30)...)
	verifrt.Reach("appended")
	verifrt.Assert(cap(g) == 48, "capacity after appending 30 bytes to 3")
	verifrt.Assert(h == 8228973279732082310, "capacities after 600 appends match the Go runtime")
}
