//verif:package github.com/kstenerud/go-concise-encoding/internal/verifself
package verifself

import "github.com/kstenerud/go-concise-encoding/internal/verifrt"

func abs(x int32) int32 {
	if x < 0 {
		return -x
	}
	return x
}

// holds except for MinInt32
func Verif_T00_Abs() {
	x := verifrt.I32("x")
	verifrt.Known("KF-T00-minint", x == -2147483648)
	r := abs(x)
	verifrt.Reach("done")
	verifrt.Assert(r >= 0, "abs non-negative")
}

func Verif_T00_Sum() {
	b := verifrt.Bytes("b", 3)
	s := 0
	for _, v := range b {
		if v > 100 {
			s += 100
		} else {
			s += int(v)
		}
	}
	verifrt.Assert(s <= 300, "sum bounded")
	m := map[string]int{}
	m[string(b[:1])] = 1
	m["a"] = 2
	verifrt.Assert(len(m) >= 1 && len(m) <= 2, "map size")
	if len(m) == 1 {
		verifrt.Reach("collide")
		verifrt.Assert(b[0] == 'a', "collide means a")
	}
}

func Verif_T00_Panic() {
	x := verifrt.U8("x")
	arr := []int{1, 2, 3}
	defer func() {
		if r := recover(); r != nil {
			verifrt.Reach("recovered")
			verifrt.Assert(x >= 3, "panics only out of range")
		}
	}()
	_ = arr[x]
	verifrt.Assert(x < 3, "in range")
}
