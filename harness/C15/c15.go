//verif:package github.com/kstenerud/go-concise-encoding/internal/verifh/c15
//verif:bounds one event with fully symbolic payload inside a list (and the structural events around it); arrays/strings <= 3 bytes; ids 1-2 bytes; big.Int <= 2 words
//verif:assume identity of *big.Float / *apd.Decimal arguments is compared by pointer (their contents are not inspected by the validator)
package c15

import (
	"math"
	"math/big"

	"github.com/cockroachdb/apd/v2"
	compact_float "github.com/kstenerud/go-compact-float"
	"github.com/kstenerud/go-concise-encoding/ce/events"
	"github.com/kstenerud/go-concise-encoding/configuration"
	"github.com/kstenerud/go-concise-encoding/internal/verifh"
	"github.com/kstenerud/go-concise-encoding/internal/verifrt"
	"github.com/kstenerud/go-concise-encoding/rules"
)

// inList sends [ <events> ] as a document and returns what the next receiver got.
func inList(send func(r events.DataEventReceiver)) *verifh.Rec {
	rec := &verifh.Rec{}
	r := rules.NewRules(rec, configuration.New())
	r.OnBeginDocument()
	r.OnVersion(0)
	r.OnList()
	if verifh.Try(func() { send(r) }) {
		verifrt.Assume(false) // not accepted: outside the property
	}
	r.OnEndContainer()
	r.OnEndDocument()
	verifrt.Assert(rec.Evs[0].K == verifh.KBeginDocument && rec.Evs[1].K == verifh.KVersion && rec.Evs[1].U == 0 && rec.Evs[2].K == verifh.KList, "envelope forwarded")
	n := len(rec.Evs)
	verifrt.Assert(rec.Evs[n-2].K == verifh.KEnd && rec.Evs[n-1].K == verifh.KEndDocument, "closing events forwarded")
	return rec
}

func one(rec *verifh.Rec) verifh.Ev {
	verifrt.Assert(len(rec.Evs) == 6, "exactly one event forwarded for one event sent")
	return rec.Evs[3]
}

func Verif_C15_Scalars() {
	which := verifrt.Choice("which", 7)
	u := verifrt.U64("u")
	b := verifrt.Bool("b")
	rec := inList(func(r events.DataEventReceiver) {
		switch which {
		case 0:
			r.OnNull()
		case 1:
			r.OnBoolean(b)
		case 2:
			r.OnPositiveInt(u)
		case 3:
			r.OnNegativeInt(u)
		case 4:
			r.OnInt(int64(u))
		case 5:
			r.OnNan(b)
		case 6:
			if b {
				r.OnTrue()
			} else {
				r.OnFalse()
			}
		}
	})
	g := one(rec)
	verifrt.Reach("done")
	switch which {
	case 0:
		verifrt.Assert(g.K == verifh.KNull, "null forwarded")
	case 1, 6:
		verifrt.Assert(g.K == verifh.KBool && g.B == b, "bool forwarded")
	case 2:
		verifrt.Assert(g.K == verifh.KPosInt && g.U == u, "positive int forwarded unchanged")
	case 3:
		verifrt.Assert(g.K == verifh.KNegInt && g.U == u, "negative int forwarded unchanged")
	case 4:
		verifrt.Assert(g.K == verifh.KInt && g.U == u, "int forwarded unchanged")
	case 5:
		verifrt.Assert(g.K == verifh.KNan && g.B == b, "nan forwarded unchanged")
	}
}

func Verif_C15_Float() {
	bits := verifrt.U64("bits")
	rec := inList(func(r events.DataEventReceiver) { r.OnFloat(math.Float64frombits(bits)) })
	g := one(rec)
	isNaN := verifrt.And((bits>>52)&0x7ff == 0x7ff, bits&(1<<52-1) != 0)
	verifrt.Reach("done")
	if isNaN {
		verifrt.Reach("nan")
		signaling := bits&(1<<51) == 0
		verifrt.Assert(g.K == verifh.KNan && g.B == signaling, "NaN float forwarded as a NaN event of the same kind")
		return
	}
	verifrt.Assert(g.K == verifh.KFloat && g.U == bits, "float forwarded bit-exact")
}

func Verif_C15_DecimalFloat() {
	exp := verifrt.I32("exp")
	coef := verifrt.I64("coef")
	v := compact_float.DFloat{Exponent: exp, Coefficient: coef}
	rec := inList(func(r events.DataEventReceiver) { r.OnDecimalFloat(v) })
	g := one(rec)
	verifrt.Reach("done")
	if v.IsNan() {
		verifrt.Reach("nan")
		verifrt.Assert(g.K == verifh.KNan && g.B == v.IsSignalingNan(), "NaN decimal float forwarded as a NaN event of the same kind")
		return
	}
	verifrt.Assert(g.K == verifh.KDecimalFloat && g.U == uint64(coef) && g.U2 == uint64(int64(exp)), "decimal float forwarded unchanged")
}

func Verif_C15_BigValues() {
	which := verifrt.Choice("which", 7)
	w0, w1 := verifrt.U64("w0"), verifrt.U64("w1")
	neg := verifrt.Bool("neg")
	var bi *big.Int
	var bf *big.Float
	var bd *apd.Decimal
	switch which {
	case 0:
		bi = new(big.Int).SetBits([]big.Word{big.Word(w0), big.Word(w1)})
		if neg {
			bi.Neg(bi)
		}
	case 2:
		bf = new(big.Float)
	case 4:
		bd = &apd.Decimal{Form: apd.Finite}
	case 5:
		bd = &apd.Decimal{Form: apd.NaN}
	case 6:
		bd = &apd.Decimal{Form: apd.NaNSignaling}
	}
	rec := inList(func(r events.DataEventReceiver) {
		switch which {
		case 0, 1:
			r.OnBigInt(bi)
		case 2, 3:
			r.OnBigFloat(bf)
		default:
			r.OnBigDecimalFloat(bd)
		}
	})
	g := one(rec)
	verifrt.Reach("done")
	switch which {
	case 0:
		verifrt.Assert(g.K == verifh.KBigInt && g.P == interface{}(bi), "big int forwarded (same object)")
		verifrt.Assert(g.B == verifrt.And(neg, verifrt.Or(w0 != 0, w1 != 0)), "big int sign intact")
	case 1, 3:
		verifrt.Assert(g.K == verifh.KNull, "nil big number forwarded as null")
	case 2:
		verifrt.Assert(g.K == verifh.KBigFloat && g.P == interface{}(bf), "big float forwarded (same object)")
	case 4:
		verifrt.Assert(g.K == verifh.KBigDecimalFloat && g.P == interface{}(bd), "big decimal forwarded (same object)")
	case 5:
		verifrt.Assert(g.K == verifh.KNan && !g.B, "quiet NaN big decimal forwarded as quiet NaN")
	case 6:
		verifrt.Assert(g.K == verifh.KNan && g.B, "signalling NaN big decimal forwarded as signalling NaN")
	}
}

func asciiBytes(tag string, n int) []byte {
	b := verifrt.Bytes(tag, n)
	for _, c := range b {
		verifrt.Assume(c >= 0x20 && c < 0x7f)
	}
	return b
}

func Verif_C15_Arrays() {
	which := verifrt.Choice("which", 8)
	n := verifrt.Choice("len", 3) + 1
	data := verifrt.Bytes("d", n)
	text := asciiBytes("t", n)
	ct := verifrt.U64("customType")
	uid := verifrt.Bytes("uid", 16)
	rec := inList(func(r events.DataEventReceiver) {
		switch which {
		case 0:
			r.OnArray(events.ArrayTypeUint8, uint64(n), data)
		case 1:
			r.OnStringlikeArray(events.ArrayTypeString, string(text))
		case 2:
			r.OnMedia("a/b", data)
		case 3:
			r.OnCustomBinary(ct, data)
		case 4:
			r.OnCustomText(ct, string(text))
		case 5:
			r.OnUID(uid)
		case 6:
			r.OnArray(events.ArrayTypeString, uint64(n), text)
		case 7:
			r.OnStringlikeArray(events.ArrayTypeResourceID, string(text))
		}
	})
	g := one(rec)
	verifrt.Reach("done")
	switch which {
	case 0:
		verifrt.Assert(verifrt.And(g.K == verifh.KArray, g.U == uint64(events.ArrayTypeUint8), g.U2 == uint64(n), verifrt.BytesEq(g.S, data)), "array forwarded unchanged")
	case 1:
		verifrt.Assert(verifrt.And(g.K == verifh.KStringArray, g.U == uint64(events.ArrayTypeString), verifrt.BytesEq(g.S, text)), "string forwarded unchanged")
	case 2:
		verifrt.Assert(verifrt.And(g.K == verifh.KMedia, verifrt.BytesEq(g.S2, []byte("a/b")), verifrt.BytesEq(g.S, data)), "media forwarded unchanged")
	case 3:
		verifrt.Assert(verifrt.And(g.K == verifh.KCustomBinary, g.U == ct, verifrt.BytesEq(g.S, data)), "custom binary forwarded unchanged")
	case 4:
		verifrt.Assert(verifrt.And(g.K == verifh.KCustomText, g.U == ct, verifrt.BytesEq(g.S, text)), "custom text forwarded unchanged")
	case 5:
		verifrt.Assert(verifrt.And(g.K == verifh.KUID, verifrt.BytesEq(g.S, uid)), "uid forwarded unchanged")
	case 6:
		verifrt.Assert(verifrt.And(g.K == verifh.KArray, g.U == uint64(events.ArrayTypeString), g.U2 == uint64(n), verifrt.BytesEq(g.S, text)), "string array forwarded unchanged")
	case 7:
		verifrt.Assert(verifrt.And(g.K == verifh.KStringArray, g.U == uint64(events.ArrayTypeResourceID), verifrt.BytesEq(g.S, text)), "resource id forwarded unchanged")
	}
}

func Verif_C15_ChunkedArray() {
	n := verifrt.Choice("len", 3) + 1
	data := verifrt.Bytes("d", n)
	k := verifrt.Choice("split", n+1)
	begin := verifrt.Choice("begin", 3)
	ct := verifrt.U64("customType")
	rec := inList(func(r events.DataEventReceiver) {
		switch begin {
		case 0:
			r.OnArrayBegin(events.ArrayTypeUint8)
		case 1:
			r.OnCustomBegin(events.ArrayTypeCustomBinary, ct)
		case 2:
			r.OnMediaBegin("a/b")
			r.OnArrayChunk(0, false) // empty media type data... media type given in the begin event
		}
		r.OnArrayChunk(uint64(k), true)
		if k > 0 {
			r.OnArrayData(data[:k])
		}
		r.OnArrayChunk(uint64(n-k), false)
		if n-k > 0 {
			r.OnArrayData(data[k:])
		}
	})
	verifrt.Reach("done")
	ev := rec.Evs[3:]
	switch begin {
	case 0:
		verifrt.Assert(ev[0].K == verifh.KArrayBegin && ev[0].U == uint64(events.ArrayTypeUint8), "array begin forwarded")
	case 1:
		verifrt.Assert(ev[0].K == verifh.KCustomBegin && ev[0].U == uint64(events.ArrayTypeCustomBinary) && ev[0].U2 == ct, "custom begin forwarded")
	case 2:
		verifrt.Assert(ev[0].K == verifh.KMediaBegin && verifrt.BytesEq(ev[0].S2, []byte("a/b")), "media begin forwarded")
		verifrt.Assert(ev[1].K == verifh.KArrayChunk && ev[1].U == 0 && !ev[1].B, "empty chunk forwarded")
		ev = ev[1:]
	}
	i := 1
	verifrt.Assert(ev[i].K == verifh.KArrayChunk && ev[i].U == uint64(k) && ev[i].B, "first chunk header forwarded")
	i++
	if k > 0 {
		verifrt.Assert(ev[i].K == verifh.KArrayData && verifrt.BytesEq(ev[i].S, data[:k]), "first chunk data forwarded")
		i++
	}
	verifrt.Assert(ev[i].K == verifh.KArrayChunk && ev[i].U == uint64(n-k) && !ev[i].B, "second chunk header forwarded")
	i++
	if n-k > 0 {
		verifrt.Assert(ev[i].K == verifh.KArrayData && verifrt.BytesEq(ev[i].S, data[k:]), "second chunk data forwarded")
		i++
	}
	verifrt.Assert(ev[i].K == verifh.KEnd, "nothing else forwarded")
}

func ident(tag string, n int) []byte {
	b := verifrt.Bytes(tag, n)
	for _, c := range b {
		verifrt.Assume(verifrt.Or(verifrt.And(c >= 'a', c <= 'z'), verifrt.And(c >= '0', c <= '9'), c == '_'))
	}
	return b
}

func Verif_C15_Structure() {
	which := verifrt.Choice("which", 6)
	id := ident("id", verifrt.Choice("idlen", 2)+1)
	v := verifrt.U64("v")
	rec := &verifh.Rec{}
	r := rules.NewRules(rec, configuration.New())
	var want []verifh.Kind
	ok := !verifh.Try(func() {
		r.OnBeginDocument()
		r.OnVersion(0)
		switch which {
		case 0: // marker + reference
			r.OnList()
			r.OnMarker(id)
			r.OnPositiveInt(v)
			r.OnReferenceLocal(id)
			r.OnEndContainer()
			want = []verifh.Kind{verifh.KList, verifh.KMarker, verifh.KPosInt, verifh.KReference, verifh.KEnd}
		case 1: // record type + record
			r.OnRecordType(id)
			r.OnPositiveInt(v)
			r.OnEndContainer()
			r.OnRecord(id)
			r.OnNull()
			r.OnEndContainer()
			want = []verifh.Kind{verifh.KRecordType, verifh.KPosInt, verifh.KEnd, verifh.KRecord, verifh.KNull, verifh.KEnd}
		case 2: // map
			r.OnMap()
			r.OnPositiveInt(v)
			r.OnNull()
			r.OnEndContainer()
			want = []verifh.Kind{verifh.KMap, verifh.KPosInt, verifh.KNull, verifh.KEnd}
		case 3: // node
			r.OnNode()
			r.OnPositiveInt(v)
			r.OnNull()
			r.OnEndContainer()
			want = []verifh.Kind{verifh.KNode, verifh.KPosInt, verifh.KNull, verifh.KEnd}
		case 4: // edge
			r.OnEdge()
			r.OnPositiveInt(v)
			r.OnNull()
			r.OnPositiveInt(v)
			r.OnEndContainer()
			want = []verifh.Kind{verifh.KEdge, verifh.KPosInt, verifh.KNull, verifh.KPosInt, verifh.KEnd}
		case 5: // comment and padding are forwarded too
			r.OnList()
			r.OnComment(false, []byte("c"))
			r.OnPadding()
			r.OnEndContainer()
			want = []verifh.Kind{verifh.KList, verifh.KComment, verifh.KPadding, verifh.KEnd}
		}
		r.OnEndDocument()
	})
	verifrt.Assume(ok)
	verifrt.Reach("done")
	verifrt.Assert(len(rec.Evs) == len(want)+3, "same number of events forwarded as sent")
	for i, k := range want {
		g := rec.Evs[2+i]
		verifrt.Assert(g.K == k, "structural event forwarded in order")
		switch k {
		case verifh.KMarker, verifh.KReference, verifh.KRecordType, verifh.KRecord:
			verifrt.Assert(verifrt.BytesEq(g.S, id), "identifier forwarded unchanged")
		case verifh.KPosInt:
			verifrt.Assert(g.U == v, "payload forwarded unchanged")
		}
	}
}
